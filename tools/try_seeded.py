#!/usr/bin/env python3
"""Runs a check against a seeded change applied to a scratch worktree of /repo (never /repo itself).
Usage: try_seeded.py <seeded dir> <Cxx> [quick|thorough]   -> prints exit code and the VIOLATION/KNOWN lines."""
import os, subprocess, sys, tempfile, shutil
d = os.path.abspath(sys.argv[1]); pid = sys.argv[2]; tier = sys.argv[3] if len(sys.argv) > 3 else "quick"
wt = tempfile.mkdtemp(prefix="trywt_"); os.rmdir(wt)
ev = tempfile.mkdtemp(prefix="tryev_")
def run(cmd, **kw): return subprocess.run(cmd, shell=True, stdout=subprocess.PIPE, stderr=subprocess.STDOUT, text=True, **kw)
try:
    r = run("git -C /repo worktree add -q --detach %s HEAD && git -C %s apply %s/patch.diff" % (wt, wt, d)); assert r.returncode == 0, r.stdout
    env = dict(os.environ, VERIF_REPO=wt, VERIF_EVIDENCE_DIR=ev, VERIF_REPLAY_DIR=ev)
    r = subprocess.run(["/verif/bin/check", pid, "--tier", tier], env=env, stdout=subprocess.PIPE, stderr=subprocess.STDOUT, text=True)
    lines = [l[:300] for l in r.stdout.splitlines() if l.startswith(("VIOLATION", "  sig", "KNOWN", pid, "MACHINERY"))]
    print("%s vs %s (%s): exit %d" % (os.path.basename(d), pid, tier, r.returncode))
    print("\n".join(lines[:14]))
    import json, re
    clauses = sorted(set(re.findall(r'"clause": "([^"]+)"', r.stdout)))
    json.dump({"check": pid, "tier": tier, "exit": r.returncode, "clauses": clauses,
               "violation_lines": sum(1 for l in r.stdout.splitlines() if l.startswith("VIOLATION"))},
              open(os.path.join(d, "detect_%s_%s.json" % (pid, tier)), "w"), indent=1)
finally:
    run("git -C /repo worktree remove --force %s" % wt); shutil.rmtree(wt, ignore_errors=True); shutil.rmtree(ev, ignore_errors=True)

#!/usr/bin/env python3
"""Builds /verif/baseline/<pid>.json (exact failing behaviours of the UNCHANGED tree per clause) from the measurement runs
measure/base_<pid>_<tier>_<seed>.json.  A property gets exact attribution only when repeated measurements of the same tier
agree (the engine is deterministic for these families); otherwise its hazard findings stay stratum-wide."""
import glob, json, os, re, sys
HERE = os.path.dirname(os.path.dirname(os.path.abspath(__file__)))
runs = {}
for f in sorted(glob.glob(os.path.join(HERE, "measure", "base_*.json"))):
    m = re.match(r"base_(C\d\d)_(\w+)_(\d+)\.json", os.path.basename(f))
    pid, tier, seed = m.groups()
    runs.setdefault(pid, {}).setdefault(tier, []).append((seed, {tuple(x) for x in json.load(open(f))}))
os.makedirs(os.path.join(HERE, "baseline"), exist_ok=True)
for pid, tiers in sorted(runs.items()):
    exact, union, notes = True, set(), []
    for tier, rs in tiers.items():
        for seed, s in rs:
            union |= s
        if len(rs) >= 2:
            a = rs[0][1]
            for seed, s in rs[1:]:
                if s != a:
                    exact = False
                    notes.append("%s: seed %s vs %s differ by %d" % (tier, rs[0][0], seed, len(s ^ a)))
        else:
            notes.append("%s: single measurement" % tier)
    hashes = {}
    for cl, h in union:
        hashes.setdefault(cl, []).append(h)
    # a tier is only attributed exactly when it was measured at least twice with identical failing sets; a tier measured once
    # keeps the stratum-wide findings (a false alarm on the unchanged tree is worse than a wider finding)
    out = {"property": pid, "exact": exact, "tiers": {t: [s for s, _ in rs] for t, rs in tiers.items() if len(rs) >= 2},
           "tiers_measured_once": sorted(t for t, rs in tiers.items() if len(rs) < 2), "notes": notes,
           "hashes": {cl: sorted(v) for cl, v in sorted(hashes.items())}}
    json.dump(out, open(os.path.join(HERE, "baseline", pid + ".json"), "w"))
    print(pid, "exact" if exact else "NOT exact", {t: [len(s) for _, s in rs] for t, rs in tiers.items()}, notes)

#!/usr/bin/env python3
"""(Re)writes seeded/<id>/meta.json from README.md (title, 'needs to manifest' section), confirm.json and detect_*.json."""
import glob, json, os, re
HERE = os.path.dirname(os.path.dirname(os.path.abspath(__file__)))
for d in sorted(glob.glob(os.path.join(HERE, "seeded", "C*_*"))):
    sid = os.path.basename(d)
    mp = os.path.join(d, "meta.json")
    meta = json.load(open(mp)) if os.path.exists(mp) else {"id": sid, "breaks_property": sid.split("_")[0]}
    rp = os.path.join(d, "README.md")
    if "change" not in meta and os.path.exists(rp):
        txt = open(rp).read()
        title = next((l.lstrip("# ").strip() for l in txt.splitlines() if l.startswith("#")), sid)
        m = re.search(r"^##[^\n]*(needed|manifest|trigger)[^\n]*\n(.*?)(?=^## |\Z)", txt, re.S | re.M | re.I)
        meta["change"] = title
        meta["needs_to_manifest"] = " ".join(m.group(2).split())[:700] if m else "see README.md"
    meta.setdefault("author", "independent sub-agent (given only the property text and a scratch worktree)")
    cp = os.path.join(d, "confirm.json")
    if os.path.exists(cp):
        c = json.load(open(cp))
        meta["confirmed_by_main_session"] = {
            "demo_passes_on_clean_tree": c.get("demo_clean_rc") == 0, "demo_fails_with_patch": c.get("demo_patched_rc") not in (0, None),
            "pinned_suite_pass_set_unchanged": ("suite_missing" in c and not c["suite_missing"]),
            "ran": "tools/confirm_seeded.py (scratch worktree of /repo HEAD, demo before/after patch, pinned suite with the patch)",
            "at": c.get("at")}
    det = {}
    for f in sorted(glob.glob(os.path.join(d, "detect_*.json"))):
        r = json.load(open(f))
        det.setdefault(r["check"], {})[r["tier"]] = {"exit": r["exit"], "clauses": r.get("clauses", [])}
    meta["detected_by"] = det
    json.dump(meta, open(mp, "w"), indent=1)
    print(sid, "confirmed" if meta.get("confirmed_by_main_session", {}).get("demo_fails_with_patch") else "-", det)

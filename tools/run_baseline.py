#!/usr/bin/env python3
"""Runs the pinned suite on /repo's working tree (guard off) and compares the passing set with BASELINE.stable_pass."""
import json, os, subprocess, sys, tempfile
import xml.etree.ElementTree as ET
base = json.load(open("/root/.vp/BASELINE.json"))["stable_pass"]
junit = tempfile.mktemp(suffix=".xml")
env = {k: v for k, v in os.environ.items() if k != "CLOUDSYNC_VERIF"}
subprocess.run("cd /repo && /venv/bin/python -m pytest -q -p no:cacheprovider --timeout=900 --continue-on-collection-errors --junitxml=%s > /dev/null 2>&1" % junit,
               shell=True, env=env)
passed = set()
for tc in ET.parse(junit).getroot().iter("testcase"):
    if not any(ch.tag in ("failure", "error", "skipped") for ch in tc):
        passed.add(tc.get("classname") + "::" + tc.get("name"))
os.unlink(junit)
missing = [t for t in base if t not in passed]
print("baseline %d, still passing %d, missing %s" % (len(base), len(base) - len(missing), missing))
sys.exit(1 if missing else 0)

#!/bin/sh
# usage: tools/measure.sh <tier> <seed> <checks...>  - runs checks on the unchanged tree and keeps the violation dumps
tier=$1; seed=$2; shift 2
cd /verif
for c in "$@"; do
  VERIF_SEED=$seed VERIF_MAX_VIOL=5000 VERIF_DUMP_VIOL=/verif/measure/${c}_${tier}_${seed}.json VERIF_BASELINE_OUT=/verif/measure/base_${c}_${tier}_${seed}.json VERIF_NO_BASELINE=1 VERIF_EVIDENCE_DIR=/tmp/meas_ev VERIF_REPLAY_DIR=/tmp/meas_ev \
    ./bin/check $c --tier $tier > /tmp/meas_ev_${c}_${tier}_${seed}.log 2>&1
  tail -1 /tmp/meas_ev_${c}_${tier}_${seed}.log
done

#!/usr/bin/env python3
"""Regenerates /verif/MANIFEST.json from the registry below (single source of truth for what is claimed)."""
import json, os
HERE = os.path.dirname(os.path.dirname(os.path.abspath(__file__)))
PROPS = [json.loads(l)["id"] for l in open(os.path.join(HERE, "properties.jsonl"))]

TRUST = ("TLC 1.8 and the JVM; the Python harness only executes calls and records results, the verdict is TLC's "
         "evaluation of the specification's predicates on recorded steps; cloudsync imported from /repo with the "
         "debug_sig logging helper shimmed; ")

SYS = 'Trace_Sys.tla validates every recorded run of the REAL engine (CloudSync, SyncState, SyncManager, EventManagers, MockProviders, storage) stepped under a virtual clock along TLC-generated behaviours (Gen_Sys.tla: every user history of n operations x schedule tokens); each property clause is evaluated by TLC at the step it talks about. '

TRUST_SYS = TRUST + ("MockProvider flavours are the environment (bound to the provider contract by C16); users act through a second provider "
                     "instance on the same in-memory account; virtual clock; bounded universes (3-4 names, depth 2, <= 2-5 operations per "
                     "history: exhaustive for the small bounds, TLC -simulate beyond); failures of the unchanged engine in hazard-tagged strata "
                     "are listed findings (known_findings.json), clean strata are strict.")

CHECKS = {
 "C01": dict(ready=True, engine="sys", design_ref="DESIGN.md 3.6-3.8, 6 (C01), 13",
   text=SYS + "C01: Converged at every quiet report, ReachesQuiet within the step bound, NoEscape, StaysQuiet; families: all two-sided histories "
        "(conflicting and not) of 2 operations exhaustively, 3-5 by slices/simulation, 2-4 flavours; family `mid`: the last user operation is performed INSIDE a sync step, "
        "right after the k-th provider call (k = 1..4) the engine makes. Design level: SysMC.tla (abstract engine constrained by the contract guards).",
   note=TRUST_SYS, technique="TLA+ spec (Sys/Tree/Gen_Sys/Trace_Sys) + TLC: generated behaviours replayed on the real engine, TLC trace validation of convergence clauses"),
 "C02": dict(ready=True, engine="sys", design_ref="DESIGN.md 3.7, 6 (C02), 13",
   text=SYS + "C02: ghost ledger (written / killed / dropped versions) in Sys.tla; LastCopy at every engine delete/upload, NoLoss and NoInventedContent at "
        "every quiet report, unreadable (corrupt) copies do not count as copies; conflict-heavy universes, resolver answers that keep data, corrupt-read placements, tail schedules in which one side's events are synced for 1 / 16 steps before the other side's arrive. "
        "SysMC.tla shows the guards make NoLoss an invariant for ANY engine.",
   note=TRUST_SYS, technique="TLA+ spec with ghost ledger + TLC model checking of the contract; TLC-generated conflict histories replayed on the real engine; TLC trace validation"),
 "C03": dict(ready=True, engine="sys", design_ref="DESIGN.md 6 (C03), 13",
   text=SYS + "C03: one-sided histories, both directions: OriginUntouched after every engine step, AsExpected + NoArtefacts at quiet (expected tree computed by the "
        "specification from the history), NoEcho / StaysQuiet over three after-quiet rounds, Productive (no redundant transfer).",
   note=TRUST_SYS, technique="TLA+ spec + TLC: generated one-sided behaviours replayed on the real engine; TLC trace validation against the specification's expected tree"),
 "C04": dict(ready=True, engine="sys", design_ref="DESIGN.md 6 (C04), 13",
   text=SYS + "C04: two-sided histories with disjoint footprints (FootprintsDisjoint + every operation applies on the single expected tree, both in Sys.tla): "
        "AsExpected (base + both sides' changes, deletes stay deleted, renames only at the new path), NoArtefacts.",
   note=TRUST_SYS, technique="TLA+ spec + TLC: generated disjoint two-sided behaviours replayed on the real engine; TLC trace validation of the three-way-merge law"),
 "C05": dict(ready=True, engine="sys", design_ref="DESIGN.md 6 (C05), 13",
   text=SYS + "C05: the finite product of Gen_Conflict.tla (shape x content pair x 9 resolver behaviours x first side x intake tokens x post-conflict schedules): "
        "resolver called once iff contents differ, handles truthful, exact outcome table at quiet, loser kept iff keep - identical for every schedule.",
   note=TRUST_SYS, technique="TLA+ enumeration of the conflict family + TLC trace validation of the resolver contract on the real engine"),
 "C06": dict(ready=True, engine="sys", design_ref="DESIGN.md 6 (C06), 13",
   text=SYS + "C06: histories with a stop at a step boundary (after an operation, after intake, mid-sync), operations while down, restart over the same storage with "
        "intact / removed / rejected cursors: AsExpected (covering form after a walk), NoArtefacts, Productive (nothing re-transferred).",
   note=TRUST_SYS + " Restart = done() + new CloudSync over the same storage object (MockStorage fixture) and provider objects.",
   technique="TLA+ spec + TLC: generated stop/offline/restart behaviours replayed on the real engine; TLC trace validation", category="fault_enumeration"),
 "C07": dict(ready=True, engine="sys", design_ref="DESIGN.md 6 (C07), 13",
   text=SYS + "C07: for every base behaviour, one run per crash instant - before each storage write and after each effective provider write of the golden run - "
        "then a new engine over whatever exists: Converged, NoLoss, LastCopy, and NoArtefacts for one-sided histories.",
   note=TRUST_SYS + " Crash = BaseException at the instrumented call, engine abandoned.", technique="crash-point enumeration over TLC-generated behaviours; TLC trace validation",
   category="fault_enumeration"),
 "C08": dict(ready=True, engine="state", design_ref="DESIGN.md 3.4, 6 (C08), 13",
   text="StateInv.tla (PersistExact, ReloadSame) evaluated by TLC on the decoded storage rows and the projected live entries after EVERY engine step of TLC-generated "
        "system histories (incl. stop/restart) and after every call of the state-level event-tuple family; Codec.tla enumerates the full shape-class product of the "
        "serialised fields and legacy rows, round-tripped through the real SyncEntry and judged by Trace_Codec.tla.",
   note=TRUST + "rows decoded with msgpack as SyncEntry.deserialize does; table read through SyncState's private indexes; one representative value per codec shape class.",
   technique="TLA+ invariants (StateInv.tla) evaluated by TLC on observed states of the real SyncState/storage; TLC-enumerated codec product"),
 "C09": dict(ready=True, engine="storage", design_ref="DESIGN.md 3.3, 6 (C09)",
   text="Storage.tla is model-checked exhaustively (2 tags x 2 ids x 2 value classes: tag isolation, frame, fresh ids, "
        "idempotent delete, durable reopen). Every call history of the specification up to length 3 (quick) / 4 (thorough) and "
        "thousands of simulated histories of length 12 are executed on a real SqliteStorage file and on MockStorage; the recorded "
        "results are validated step by step against the specification by TLC (Trace_Storage). Concurrent callers: recorded "
        "call/return histories of 4 threads on one file must be linearisable w.r.t. Storage.tla (TLC searches the linearisation "
        "points). Exhaustive within the bounds, sampled beyond.",
   note=TRUST + "byte strings represented by five classes; durability = close and reopen of the file, not power loss; thread "
        "interleavings are whatever the OS produced in this run.",
   technique="TLA+ spec (Storage.tla) + TLC model checking; TLC-generated behaviours replayed on the backends; TLC trace validation incl. linearisability search"),
 "C10": dict(ready=True, engine="sys", design_ref="DESIGN.md 6 (C10), 13",
   text=SYS + "C10: for every base behaviour, one run per (engine provider call index, fault kind in temporary / disconnected / token / out-of-space): FaultNotified "
        "(matching notification before the step ends), then Converged / NoLoss / AsExpected after the faults stop; base behaviours include restarts whose start-up walk is hit by the "
        "faults and re-writes of an object whose transfer may have failed half-way; family `stuck`: one path keeps failing for 30 fair rounds - OthersNotStarved (everything else "
        "synchronised meanwhile), then it succeeds and the sides converge.",
   note=TRUST_SYS + " Faults are injected at engine-issued API calls only; a disconnect fault really disconnects the provider.", technique="fault enumeration over TLC-generated behaviours; TLC trace validation",
   category="fault_enumeration"),
 "C11": dict(ready=True, engine="state", design_ref="DESIGN.md 3.4, 6 (C11), 13",
   text="StateInv.tla (FoundByOid, FoundByPath, NoStaleOidSlot, NoStalePathSlot, OneOwnerPerOid, PendingExact) evaluated by TLC on the observed table of the real "
        "SyncState and SmartSyncState: after every call of every sequence of raw event tuples / discards / forget (Gen_State.tla, exhaustive for length 2, simulated to 5-7, id-style and "
        "path-style, case-sensitive and case-insensitive sides with names that differ only by case) and after every engine step of system histories (incl. stop/restart and a "
        "case-variant universe on case-insensitive flavours).",
   note=TRUST + "table read through SyncState's private indexes (_oids, _paths, _changeset_storage, _dirtyset).",
   technique="TLA+ invariants (StateInv.tla) evaluated by TLC on observed states of the real SyncState; TLC-generated event-tuple sequences"),
 "C12": dict(ready=True, engine="sys", design_ref="DESIGN.md 6 (C12), 13",
   text=SYS + "C12: accounts with objects outside the roots (other folder, prefix sibling <root>X, account-root file), one-sided histories incl. moves across the boundary, "
        "roots by path or by id, filtering on/off, a declining translate: InsideRoot on every engine call, OutsideUntouched after every step, Converged on the roots, DeclinedLeftAlone.",
   note=TRUST_SYS, technique="TLA+ spec + TLC: generated boundary-crossing behaviours replayed on the real engine; TLC trace validation of confinement clauses"),
 "C13": dict(ready=True, engine="paths", design_ref="DESIGN.md 3.1, 6 (C13), 13",
   text="Paths.tla transcribes join/split/normalize_path_separators/normalize_path/is_subpath/replace_path/paths_match/dirname/basename and CloudSync.translate for all 8 "
        "conventions and states the property's 13 laws; TLC checks the laws on the specification for small bounds; TLC enumerates every string <= 4 (thorough 5), pairs, "
        "triples, translation inputs for all 64 convention pairs, folder arguments in 14 un-normalised spellings (trailing / doubled / alternate separators) and simulated long paths; the real helpers are executed on each input and TLC (Trace_Paths) evaluates every "
        "law on the CODE's results and compares them with the specification operators.",
   note=TRUST + "characters represented by 8 classes; helpers on bare Provider subclasses, translate on real CloudSync objects; folder laws for absolute folders join(f).",
   technique="TLA+ spec (Paths.tla) + TLC model checking of the laws; TLC-enumerated inputs executed on the real helpers; TLC trace validation"),
 "C14": dict(ready=True, engine="sys", design_ref="DESIGN.md 6 (C14), 13",
   text=SYS + "C14: every non-conflicting behaviour executed twice - prompt in-order delivery vs a mangled event stream (duplicated, replayed, walk before every intake, "
        "per-event batches, ghost events; reversed / delayed / path-less on id-stable sides) - as one paired trace: SameQuietTrees, NoSpuriousTransfers, NoExtraConflicted.",
   note=TRUST_SYS, technique="TLA+ spec + TLC: paired-trace validation (mangled run judged against the prompt run of the same TLC-generated behaviour)"),
 "C15": dict(ready=True, engine="threads", design_ref="DESIGN.md 6 (C15), 13",
   text="Real threads (cs.start()), real time, randomised switch interval: TLC-generated create-only two-sided histories with an application thread calling public methods; "
        "(the on-demand engine too, with a tour of every smart_* method); every call into SyncState.updated and every storage write of a state-tag row is recorded with (thread, "
        "call site, field, lock owned); the state lock itself is observed through a proxy: StepAtomic = one entry synchronisation / one event application / one on-demand request "
        "never lets go of the lock and takes it again; TLC (Trace_Sys) demands LockOwned and StepAtomic for every observed site and AsExpected / Converged / NoLoss at the end.",
   note=TRUST + "interleavings are whatever the OS produced (sampled); private attribute writes that bypass SyncState.updated are not observed; a real-time timeout is retried sequentially.",
   technique="TLC trace validation of lock ownership per mutation site and of the end state of threaded runs", category="exploration"),
 "C16": dict(ready=True, engine="provider", design_ref="DESIGN.md 3.2, 6 (C16), 13",
   text="ProviderModel.tla (reference tree: create/mkdir/upload/rename/delete with documented error classes, queries, event feed) model-checked for both id styles and case "
        "modes; every transition of the model's tree graph up to 3 calls (thorough 4) plus simulated 10-call sequences over the full alphabet and all content size classes "
        "executed on fresh instances of the four MockProvider flavours and of FileSystemProvider on a real temporary directory; results, observations and drained events "
        "validated by TLC (Trace_Provider). File contents are 18 byte strings in groups that collide under partial (head/tail) sampling around the 1 KiB / 2 KiB boundaries; "
        "ProviderIdentity.tla models the bound account identity and every connect(a)/connect(b)/disconnect/reconnect sequence <= 3 (4) is replayed on every provider.",
   note=TRUST + "FS case-sensitive only, events awaited with an ordered sentinel; real cloud providers cannot run offline and are out of scope.",
   technique="TLA+ spec (ProviderModel.tla) + TLC model checking; state-graph transition coverage + simulation replayed on mock and filesystem providers; TLC trace validation"),
 "C17": dict(ready=True, engine="sys", design_ref="DESIGN.md 6 (C17), 13",
   text="Sched.tla: every configuration of pending entries x change times x priorities x ages enumerated by TLC, answered by the real SyncState.change(), laws "
        "(ChosenIsEligible, LowerPriorityThenOlderFirst, ZeroAgeAllEligible) evaluated by TLC on the code's answer; system runs under the virtual clock with ageing 2/4 s "
        "and priority tables: Aged at every effective engine write (time since the engine was last notified about that object, either side).",
   note=TRUST_SYS, technique="TLA+ spec (Sched.tla) + TLC enumeration replayed on SyncState.change(); TLC trace validation of the ageing clause on timed system runs"),
 "C18": dict(ready=True, engine="runnable", design_ref="DESIGN.md 3.9, 6 (C18), 13",
   text="Runnable.tla (loop thread + controllers at shared-variable grain) model-checked exhaustively for small bounds; every do-outcome sequence x backoff triples, TLC-enumerated "
        "gated schedules (incl. the thread start-up window between start() returning and the loop's first statement, and loop sleeps below / between / above the backoff bounds), "
        "call sequences and seeded free-running threads executed on the real Runnable; every notify/do/stop history on the real NotificationManager; recorded "
        "traces validated by TLC (clause monitor + search for a placement of the unlogged steps).",
   note=TRUST + "observation through overridable methods and a proxy for cloudsync.runnable.log; dyadic backoff parameters; free-run interleavings sampled.",
   technique="TLA+ spec (Runnable.tla, Notifier.tla) + TLC model checking; TLC-generated gated schedules replayed on the real classes; TLC trace validation incl. silent-step placement search"),
 "C19": dict(ready=True, engine="hcache", design_ref="DESIGN.md 3.9, 6 (C19), 13",
   text="HCache.tla (reference dictionary path->[id,type,meta] with the documented eviction rules) model-checked over its whole reachable graph; TLC enumerates every "
        "(hazard-free-reachable reference state, call) for prefixes of 2-3 calls, all sequences of length 2 and simulated sequences; each executed on a real HierarchicalCache, "
        "all public getters and a structural walk recorded after every call and judged by TLC (Trace_HCache).",
   note=TRUST + "the intended result in hazard cases is fixed by the reference model; MockProvider supplies path helpers; first failing line of a trace is judged.",
   technique="TLA+ spec (HCache.tla) + TLC model checking; TLC-generated call histories with hazard tags replayed on the real cache; TLC trace validation"),
 "C20": dict(ready=True, engine="sys", design_ref="DESIGN.md 6 (C20), 13",
   text=SYS + "C20: Gen_Smart.tla enumerates on-demand behaviours (remote create/edit/delete, local create/edit, request by path/id, un-request, listing) with schedule tokens, "
        "with/without an auto-sync predicate; the real SmartCloudSync methods run on the traced engine: DownloadOnlyOnDemand at every local engine write, UnrequestedStayRemote / "
        "RequestedDownloaded / LocalFilesInSync / FoldersMirrored at quiet, UnsyncKeepsRemote / UnsyncRemovesLocal / UnsyncUploadsNewerFirst around un-requests (FailedUnsyncKeepsLocal when a "
        "provider fault makes the un-request fail), ListingTruth; request -> un-request -> re-request histories.",
   note=TRUST_SYS, technique="TLA+ generator (Gen_Smart.tla) + TLC trace validation of the on-demand clauses on the real SmartCloudSync code"),
}

NA_REASON = "check not built yet (build in progress; see DESIGN.md section 11)"

def main():
    m = {"version": 1, "setup_cmd": "./bin/setup",
         "hooks": {"guard": "CLOUDSYNC_VERIF",
                   "enable": "bin/check exports CLOUDSYNC_VERIF=1; no source hook exists (all observation is by subclassing and injection from /verif), so the variable is informational",
                   "baseline_off_cmd": "cd /repo && env -u CLOUDSYNC_VERIF /venv/bin/python -m pytest -ra -q -p no:cacheprovider --timeout=900 --continue-on-collection-errors",
                   "source_commits": [], "add_only": True},
         "engines": [], "checks": [],
         "notes": "Model-based verification with an explicit TLA+ specification family; see DESIGN.md. Fix commits in /repo: see known_findings.json 'fixed'.",
         "not_applicable": []}
    engines = {}
    for pid in PROPS:
        c = CHECKS.get(pid)
        if c and not c.get("ready"):
            c = None
        if not c:
            m["not_applicable"].append({"property_id": pid, "reason": NA_REASON})
            continue
        engines.setdefault(c["engine"], []).append(pid)
        m["checks"].append({"property_id": pid, "quick_cmd": "./bin/check %s --tier quick" % pid,
                            "thorough_cmd": "./bin/check %s --tier thorough" % pid,
                            "evidence_file": "/verif/evidence/%s.json" % pid,
                            "replay_cmd_template": "./bin/check %s --replay {path}" % pid,
                            "engine": c["engine"],
                            "level_claimed": {"category": c.get("category", "model_checking"), "text": c["text"], "design_ref": c["design_ref"]},
                            "level_note": c["note"], "technique": c["technique"]})
    for e, ps in engines.items():
        m["engines"].append({"name": e, "path": "/verif/vh/checks", "serves_properties": ps,
                             "kind_free_text": "TLA+ specification + TLC + Python conformance harness"})
    json.dump(m, open(os.path.join(HERE, "MANIFEST.json"), "w"), indent=1)
    print("claimed:", sorted(CHECKS), "not claimed:", [x["property_id"] for x in m["not_applicable"]])

if __name__ == "__main__":
    main()

#!/usr/bin/env python3
"""Regenerates /verif/MANIFEST.json from the registry below (single source of truth for what is claimed)."""
import json, os
HERE = os.path.dirname(os.path.dirname(os.path.abspath(__file__)))
PROPS = [json.loads(l)["id"] for l in open(os.path.join(HERE, "properties.jsonl"))]

TRUST = ("TLC 1.8 and the JVM; the Python harness only executes calls and records results, the verdict is TLC's "
         "evaluation of the specification's predicates on recorded steps; cloudsync imported from /repo with the "
         "debug_sig logging helper shimmed; ")

CHECKS = {
 "C09": dict(engine="storage", design_ref="DESIGN.md 3.3, 6 (C09)",
   text="Storage.tla is model-checked exhaustively (2 tags x 2 ids x 2 value classes: tag isolation, frame, fresh ids, "
        "idempotent delete, durable reopen). Every call history of the specification up to length 3 (quick) / 4 (thorough) and "
        "thousands of simulated histories of length 12 are executed on a real SqliteStorage file and on MockStorage; the recorded "
        "results are validated step by step against the specification by TLC (Trace_Storage). Concurrent callers: recorded "
        "call/return histories of 4 threads on one file must be linearisable w.r.t. Storage.tla (TLC searches the linearisation "
        "points). Exhaustive within the bounds, sampled beyond.",
   note=TRUST + "byte strings represented by five classes; durability = close and reopen of the file, not power loss; thread "
        "interleavings are whatever the OS produced in this run.",
   technique="TLA+ spec (Storage.tla) + TLC model checking; TLC-generated behaviours replayed on the backends; TLC trace validation incl. linearisability search"),
}

NA_REASON = "check not built yet (build in progress; see DESIGN.md section 11)"

def main():
    m = {"version": 1, "setup_cmd": "./bin/setup",
         "hooks": {"guard": "CLOUDSYNC_VERIF",
                   "enable": "bin/check exports CLOUDSYNC_VERIF=1; no source hook exists (all observation is by subclassing and injection from /verif), so the variable is informational",
                   "baseline_off_cmd": "cd /repo && env -u CLOUDSYNC_VERIF /venv/bin/python -m pytest -ra -q -p no:cacheprovider --timeout=900 --continue-on-collection-errors",
                   "source_commits": [], "add_only": True},
         "engines": [], "checks": [],
         "notes": "Model-based verification with an explicit TLA+ specification family; see DESIGN.md. Fix commits in /repo: see known_findings.json 'fixed'.",
         "not_applicable": []}
    engines = {}
    for pid in PROPS:
        c = CHECKS.get(pid)
        if not c:
            m["not_applicable"].append({"property_id": pid, "reason": NA_REASON})
            continue
        engines.setdefault(c["engine"], []).append(pid)
        m["checks"].append({"property_id": pid, "quick_cmd": "./bin/check %s --tier quick" % pid,
                            "thorough_cmd": "./bin/check %s --tier thorough" % pid,
                            "evidence_file": "/verif/evidence/%s.json" % pid,
                            "replay_cmd_template": "./bin/check %s --replay {path}" % pid,
                            "engine": c["engine"],
                            "level_claimed": {"category": c.get("category", "model_checking"), "text": c["text"], "design_ref": c["design_ref"]},
                            "level_note": c["note"], "technique": c["technique"]})
    for e, ps in engines.items():
        m["engines"].append({"name": e, "path": "/verif/vh/checks", "serves_properties": ps,
                             "kind_free_text": "TLA+ specification + TLC + Python conformance harness"})
    json.dump(m, open(os.path.join(HERE, "MANIFEST.json"), "w"), indent=1)
    print("claimed:", sorted(CHECKS), "not claimed:", [x["property_id"] for x in m["not_applicable"]])

if __name__ == "__main__":
    main()

#!/usr/bin/env python3
"""Confirms a seeded change: demo passes on the clean tree, fails with the patch, and the pinned suite's passing set
is unchanged with the patch.  Usage: confirm_seeded.py <seeded dir> [--no-suite]. Writes confirm.json there."""
import json, os, subprocess, sys, tempfile, shutil, time
d = os.path.abspath(sys.argv[1]); nosuite = "--no-suite" in sys.argv
base = json.load(open("/root/.vp/BASELINE.json"))["stable_pass"]
wt = tempfile.mkdtemp(prefix="seedwt_")
os.rmdir(wt)
def run(cmd, **kw): return subprocess.run(cmd, shell=True, stdout=subprocess.PIPE, stderr=subprocess.STDOUT, text=True, **kw)
res = {"dir": d, "at": time.strftime("%Y-%m-%d %H:%M:%S")}
try:
    r = run("git -C /repo worktree add -q --detach %s HEAD" % wt); assert r.returncode == 0, r.stdout
    env = "cd %s && PYTHONPATH=%s CLOUDSYNC_TREE=%s CLOUDSYNC_SRC=%s PYTHONHASHSEED=0 " % (wt, wt, wt, wt)
    extra = ""
    r = run(env + "timeout 900 /venv/bin/python %s/demo.py" % d)
    if r.returncode != 0 and "AssertionError" in r.stdout and "cloudsync/__init__.py" in r.stdout:
        extra = " --any"          # some demonstrations insist on their author's worktree path unless told otherwise
        r = run(env + "timeout 900 /venv/bin/python %s/demo.py%s" % (d, extra))
    res["demo_clean_rc"] = r.returncode; res["demo_clean_tail"] = r.stdout[-300:]
    r = run("git -C %s apply %s/patch.diff" % (wt, d)); res["apply_rc"] = r.returncode; res["apply_out"] = r.stdout[-300:]
    r = run(env + "timeout 900 /venv/bin/python %s/demo.py%s" % (d, extra)); res["demo_patched_rc"] = r.returncode; res["demo_patched_tail"] = r.stdout[-600:]
    if not nosuite:
        junit = os.path.join(wt, "junit.xml")
        r = run("cd %s && timeout 1500 /venv/bin/python -m pytest -q -p no:cacheprovider --timeout=900 --continue-on-collection-errors --junitxml=%s > /dev/null 2>&1" % (wt, junit))
        import xml.etree.ElementTree as ET
        passed = set()
        for tc in ET.parse(junit).getroot().iter("testcase"):
            if not any(ch.tag in ("failure", "error", "skipped") for ch in tc):
                passed.add(tc.get("classname") + "::" + tc.get("name"))
        missing = [t for t in base if t not in passed]
        res["suite_pass_of_baseline"] = len(base) - len(missing); res["suite_missing"] = missing[:10]
    res["confirmed"] = (res["demo_clean_rc"] == 0 and res["apply_rc"] == 0 and res["demo_patched_rc"] != 0
                        and (nosuite or not res["suite_missing"]))
finally:
    run("git -C /repo worktree remove --force %s" % wt)
    shutil.rmtree(wt, ignore_errors=True)
json.dump(res, open(os.path.join(d, "confirm.json"), "w"), indent=1)
print(os.path.basename(d), "confirmed" if res.get("confirmed") else "NOT CONFIRMED", {k: v for k, v in res.items() if k.endswith("_rc") or k.startswith("suite")})

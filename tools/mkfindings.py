#!/usr/bin/env python3
"""
Derives the hazard-stratum findings of the system-level checks from measurement dumps (VERIF_DUMP_VIOL output of runs on
the UNCHANGED tree, kept under /verif/measure/) and merges them into known_findings.json.

A failing behaviour of the unchanged engine is summarised by (property, clause, flavour, hazard tags computed by Sys.tla, and
the check's own site keys).  For every (property, site keys, flavour) the MINIMAL hazard-tag sets observed failing ("cores")
become findings: match = {clause: [clauses seen with that core], flavor: [...], tags_all: core, <site keys>}.  A behaviour
whose tags contain a core and whose clause is listed is attributed to the finding; anything else - a clause never seen
failing for that core, a tag-free (clean) history, another flavour class - is a VIOLATION.
Hand-written findings (status/what/match given in HAND below or already present without "auto": true) are kept.
"""
import glob
import json
import os
import sys

HERE = os.path.dirname(os.path.dirname(os.path.abspath(__file__)))
NEUTRAL = {"TWOSIDED", "CONFLICT", "NOOP"}
SITE_KEYS = {"C06": ["variant"], "C12": ["decline"], "C14": [], "C10": [], "C07": [], "C17": ["both_sides_pending"]}
# clauses that are never attributed to a hazard stratum, whatever the measurement says (data loss, confinement, ...)
NEVER = {"LastCopy", "NoLoss", "NoInventedContent", "InsideRoot", "OutsideUntouched", "DeclinedLeftAlone",
         "FoundByOid", "FoundByPath", "NoStaleOidSlot", "NoStalePathSlot", "OneOwnerPerOid", "PendingExact", "PersistExact",
         "ReloadSame", "LockOwned", "ResolverOnlyOnDifferentContent", "ResolverHandlesTruthful", "ResolverCalledOnceIffDifferent",
         "ResolverOutcome", "ResolverKeepsLoserIffKeep", "FaultNotified", "Aged"}

WHAT = {
    "DIRMOVE_FRESH": "a folder is renamed/moved while it or a descendant was created or changed in the same unsynced window (child entry unsynced when the parent is renamed; SyncState._update_kids / handle_rename)",
    "DIRMOVE_THEN_DESC": "an operation addresses a descendant through the new name of a folder moved earlier in the same unsynced window (path-style ids: the descendant's id changed with the folder)",
    "DIRMOVE": "a synced folder is renamed/moved (path-style side or combined hazards: descendants' ids are paths)",
    "REUSE": "a vacated path is re-occupied before the engine synced the vacating (delete/rename-away then create/rename-onto)",
    "TYPE": "a path is a file at one time and a folder at another within one unsynced window",
    "RENAME_ONTO": "a rename targets an occupied path (an empty folder is replaced)",
    "FILEMOVE_FRESH": "a file created or changed in the unsynced window is renamed",
    "FRESH_DELETED": "an object created, changed or moved in the unsynced window is deleted",
    "FRESH_EDIT": "an object created in the unsynced window is overwritten in the same window (the create already carried the latest bytes)",
    "CF_DIRDIR": "both sides put a folder at the same path in one unsynced window",
    "CF_TYPE": "one side puts a file and the other a folder at the same path",
    "CF_GONE": "one side removed or moved away what the other side changed (rename/delete vs change of the same object)",
    "CF_ANC": "one side changed a path that the other side's change depends on (an ancestor folder)",
    "CF_FILEFILE": "both sides put a file at the same path (create/create, edit/edit) combined with further hazards",
}


def load_dumps():
    obs = {}
    for f in sorted(glob.glob(os.path.join(HERE, "measure", "C*.json"))):
        pid = os.path.basename(f).split("_")[0]
        for v in json.load(open(f)):
            sig = v["sig"]
            if "tags" not in sig or "flavor" not in sig:
                continue
            obs.setdefault(pid, []).append((sig, v.get("case"), v.get("count", 1), os.path.basename(f)))
    return obs


def minimal(sets):
    sets = sorted(set(sets), key=len)
    out = []
    for s in sets:
        if not any(o <= s for o in out):
            out.append(s)
    return out


def main():
    path = os.path.join(HERE, "known_findings.json")
    data = json.load(open(path))
    keep = [f for f in data["findings"] if not f.get("auto")]
    auto = []
    obs = load_dumps()
    for pid, rows in sorted(obs.items()):
        keys = SITE_KEYS.get(pid, [])
        groups = {}
        for sig, case, count, src in rows:
            if sig["clause"] in NEVER:
                continue
            hz = frozenset(t for t in sig["tags"] if t not in NEUTRAL)
            if not hz:
                continue            # a failure in a clean stratum is never auto-listed
            site = tuple((k, sig.get(k)) for k in keys)
            groups.setdefault((site, sig["flavor"]), []).append((hz, sig["clause"], case, count, src))
        for (site, flavor), items in sorted(groups.items(), key=str):
            cores = minimal([hz for hz, _, _, _, _ in items])
            for core in cores:
                clauses = sorted({cl for hz, cl, _, _, _ in items if core <= hz})
                ex = [c for hz, cl, c, _, _ in items if hz == core and c] or [c for hz, cl, c, _, _ in items if core <= hz and c]
                n = sum(cnt for hz, cl, _, cnt, _ in items if core <= hz)
                fid = "%s-%s-%s%s" % (pid, "+".join(sorted(core)), flavor.replace("/", "_"),
                                      "".join("-%s=%s" % kv for kv in site))
                match = {"clause": clauses, "flavor": flavor, "tags_all": sorted(core)}
                for k, v in site:
                    match[k] = v
                what = "; ".join(WHAT.get(t, t) for t in sorted(core))
                auto.append({"id": fid, "property": pid, "status": "open", "auto": True,
                             "what": "[%s, %s] %s -> %s" % (flavor, "+".join(sorted(core)), what, "/".join(clauses)),
                             "match": match, "exemplar": ex[0] if ex else None, "seen": n,
                             "measured_in": sorted({src for hz, cl, _, _, src in items if core <= hz})})
    # merge: the measurement dumps only contain what the findings in force did NOT already cover, so earlier hazard cores
    # are kept (a stratum-wide finding that is wider than necessary is harmless: baseline/<id>.json identifies the exact
    # behaviours) and new cores / clauses are added
    old = {f["id"]: f for f in data["findings"] if f.get("auto")}
    for f in auto:
        if f["id"] in old:
            o = old[f["id"]]
            o["match"]["clause"] = sorted(set(o["match"]["clause"]) | set(f["match"]["clause"]))
            o["seen"] = o.get("seen", 0) + f["seen"]
            o["measured_in"] = sorted(set(o.get("measured_in", [])) | set(f["measured_in"]))
        else:
            old[f["id"]] = f
    auto = [old[k] for k in sorted(old)]
    data["findings"] = keep + auto
    json.dump(data, open(path, "w"), indent=1)
    print("kept %d hand-written, generated %d hazard findings" % (len(keep), len(auto)))
    for f in auto:
        print("  ", f["id"], f["match"]["clause"], f["seen"])


if __name__ == "__main__":
    main()

\* design-level run of HCache.tla with metadata: case-sensitive, ids {1,2}, metadata values {0,1} (quick tier)
CONSTANTS
  Names = {"a", "b"}
  Ids = {1, 2}
  Depth = 2
  CaseFold = FALSE
  Metas = {0, 1}
SPECIFICATION HSpec
INVARIANT TypeOK
INVARIANT Coherent
INVARIANT RoundTrip
INVARIANT StepProps
CHECK_DEADLOCK FALSE

------------------------------- MODULE Gen_Sys -------------------------------
(***************************************************************************)
(* Behaviour generator for the system-level families (DESIGN.md 4.3, 6).     *)
(* Enumerates every user history of exactly MaxOps operations over a small   *)
(* universe, applied to per-side shadow trees that start from the synced      *)
(* base tree, together with a schedule token between consecutive operations   *)
(* (what the engine is allowed to do before the next user operation):         *)
(*   "N" nothing | "I" intake on both sides | "I1" intake of ONE event on the  *)
(*   changed side | "IS" intake + one sync step | "ISS" intake, two sync steps, *)
(*   intake | "Q" run to quiet (only while the history is non-conflicting;     *)
(*   both shadow trees then become the expected merged tree)                   *)
(* The history ends with Q (run to quiet) and AQ (after-quiet rounds).  The    *)
(* state carries the same ledger as Sys.tla, so exOK / hazard tags are the     *)
(* specification's own.  Emitted as JSON token lists for vh/sysdrv.py.         *)
(***************************************************************************)
EXTENDS Sys, Json

CONSTANTS Base,        \* the synced base tree
          FP, DP,      \* universe of file paths / folder paths users address
          GenSides,    \* sides on which users act (subset of {1, 2})
          Gaps,        \* schedule tokens allowed between operations
          Filter,      \* "all" | "disjoint" (non-conflicting histories only) | "conflict" (conflicting only)
          MaxOps
VARIABLES h, nops, down      \* down: the engine is stopped (C06: operations made while down are 'offline')
gvars == <<tr, written, killed, dropped, merged, expect, exOK, chg, anc, origin, win, tags, h, nops, down>>

FreshCid == 20 + nops

OpsOf(t) ==
       {[k |-> "create", p |-> p, q |-> <<>>, c |-> FreshCid] : p \in {x \in FP : CanCreate(t, x)}}
  \cup {[k |-> "write",  p |-> p, q |-> <<>>, c |-> FreshCid] : p \in {x \in FP : IsFile(t, x)}}
  \cup {[k |-> "delete", p |-> p, q |-> <<>>, c |-> 0] : p \in {x \in FP : IsFile(t, x)}}
  \cup {[k |-> "mkdir",  p |-> p, q |-> <<>>, c |-> 0] : p \in {x \in DP : CanMkdir(t, x)}}
  \cup {[k |-> "rmdir",  p |-> p, q |-> <<>>, c |-> 0] : p \in {x \in DP : Has(t, x) /\ t[x] = DIR /\ Kids(t, x) = {}}}
  \cup {[k |-> "rename", p |-> pq[1], q |-> pq[2], c |-> 0] :
           pq \in {y \in (FP \X FP) \cup (DP \X DP) : CanRename(t, y[1], y[2])}}

\* mid-step operations: the user acts right after the k-th provider call the engine makes in the following sync steps
MidGaps == {"M1", "M2", "M3", "M4"}
MidK(g) == CASE g = "M1" -> 1 [] g = "M2" -> 2 [] g = "M3" -> 3 [] OTHER -> 4
OpTok(s, op) ==
  CASE op.k \in {"create", "write"} -> <<"U", s - 1, <<op.k, op.p, op.c>>>>
    [] op.k = "rename" -> <<"U", s - 1, <<op.k, op.p, op.q>>>>
    [] OTHER -> <<"U", s - 1, <<op.k, op.p>>>>
UTok(s, op, g) == IF g \in MidGaps THEN <<"UM", MidK(g), s - 1, OpTok(s, op)[3]>> ELSE OpTok(s, op)
GapToks(s, g) ==
  CASE g = "N"   -> <<>>
    [] g = "I"   -> << <<"EL", 0>>, <<"ER", 0>> >>
    [] g = "I1"  -> << <<IF s = 1 THEN "EL" ELSE "ER", 1>> >>
    [] g = "IS"  -> << <<"EL", 0>>, <<"ER", 0>>, <<"S">> >>
    [] g = "ISS" -> << <<"EL", 0>>, <<"ER", 0>>, <<"S">>, <<"S">>, <<"EL", 0>>, <<"ER", 0>> >>
    [] g = "SI"  -> << <<"S">>, <<IF s = 1 THEN "ER" ELSE "EL", 0>>, <<"S">> >>
    [] g = "LSR" -> << <<"EL", 0>>, <<"S">>, <<"ER", 0>>, <<"S">> >>        \* one side's events are seen and synced before the other's
    [] g = "RSL" -> << <<"ER", 0>>, <<"S">>, <<"EL", 0>>, <<"S">> >>
    \* tail-only: one side's events are synced for several steps (punts and retries included) before the other side's arrive
    \* (16 steps: a punted entry is only retried after the others had their turn; idle steps leave no trace line)
    [] g = "LSxR" -> << <<"EL", 0>> >> \o [i \in 1..16 |-> <<"S">>] \o << <<"ER", 0>>, <<"S">> >>
    [] g = "RSxL" -> << <<"ER", 0>> >> \o [i \in 1..16 |-> <<"S">>] \o << <<"EL", 0>>, <<"S">> >>
    [] g = "IT1S" -> << <<"EL", 0>>, <<"ER", 0>>, <<"T", 1>>, <<"S">> >>       \* one half-ageing unit later: too early
    [] g = "IT2S" -> << <<"EL", 0>>, <<"ER", 0>>, <<"T", 2>>, <<"S">> >>       \* exactly aged
    [] g = "IT3S" -> << <<"EL", 0>>, <<"ER", 0>>, <<"T", 3>>, <<"S">>, <<"S">> >>
    [] g = "TI"   -> << <<"T", 1>>, <<"EL", 0>>, <<"ER", 0>> >>
    [] g = "X"    -> << <<"X">> >>                                   \* stop the engine at this step boundary
    [] g = "R"    -> << <<"R", "intact">> >>                         \* start a new engine over the same storage
    [] g = "Rrm"  -> << <<"R", "cursorRemoved">> >>
    [] g = "Rrej" -> << <<"R", "cursorRejected">> >>
    [] g = "ISX"  -> << <<"EL", 0>>, <<"ER", 0>>, <<"S">>, <<"X">> >>   \* stop mid-sync with pending entries
    [] g = "IX"   -> << <<"EL", 0>>, <<"ER", 0>>, <<"X">> >>
    [] g = "Q"   -> << <<"Q">> >>
    [] g = "PX"  -> <<>>
    [] g \in MidGaps -> << <<"S">>, <<"S">> >>          \* (the operation itself is armed, see GenUser) two sync steps follow

GenInit ==
  /\ tr = <<Base, Base>> /\ expect = Base /\ exOK = TRUE
  /\ written = Cells(Base) \ {DIR} /\ killed = {} /\ dropped = {} /\ merged = {}
  /\ chg = <<{}, {}>> /\ anc = <<{}, {}>> /\ origin = 0 /\ win = EmptyWin /\ tags = {}
  \* "PX" in Gaps: the history may begin with a stop - the first session ends before any user has done anything
  /\ h \in (IF "PX" \in Gaps THEN {<<>>, << <<"X">> >>} ELSE {<<>>}) /\ nops = 0 /\ down = (h # <<>>)

GenUser(s, op, g) ==
  /\ nops < MaxOps
  /\ g # "PX"
  /\ (g \in MidGaps => nops > 0)         \* a mid-step operation needs earlier work for the engine to be in the middle of
  /\ LET t2 == Apply(tr[s], op)
         last == nops + 1 = MaxOps
     IN /\ UserEffect(s, op, t2)
        /\ IF last
             THEN /\ g \in (IF down THEN {"R", "Rrm", "Rrej"} \cap Gaps
                              ELSE {"N"} \cup (Gaps \cap ({"I1", "IS", "SI", "LSR", "RSL", "LSxR", "RSxL"} \cup MidGaps)))   \* what happens before the final run to quiet
                  /\ tr' = [tr EXCEPT ![s] = t2]
                  /\ down' = FALSE
                  /\ h' = h \o <<UTok(s, op, g)>> \o GapToks(s, g) \o << <<"Q">>, <<"AQ">> >>
             ELSE /\ h' = h \o <<UTok(s, op, g)>> \o GapToks(s, g)
                  /\ g \notin {"LSxR", "RSxL"}
                  /\ IF down THEN g \in {"N", "R", "Rrm", "Rrej"} ELSE g \notin {"R", "Rrm", "Rrej"}
                  /\ down' = IF g \in {"X", "ISX", "IX"} THEN TRUE ELSE IF g \in {"R", "Rrm", "Rrej"} THEN FALSE ELSE down
                  /\ IF g = "Q"
                       THEN /\ exOK'                       \* only non-conflicting histories may be synced mid-way
                            /\ tr' = <<expect', expect'>>
                       ELSE tr' = [tr EXCEPT ![s] = t2]
  /\ nops' = nops + 1
  /\ UNCHANGED <<dropped, merged>>

GenNext == \E s \in GenSides : \E op \in OpsOf(tr[s]) : \E g \in Gaps \cup {"N"} : GenUser(s, op, g)
GenSpec == GenInit /\ [][GenNext]_gvars

\* "clean" / "cleandisjoint": histories without any hazard tag (plain file/file conflicts are not a hazard) - the only strata
\* the seeded random (-simulate) families explore, so that the verdict on an unchanged tree never depends on the seed
Hazards == tags \ {"TWOSIDED", "CONFLICT", "NOOP", "CF_FILEFILE"}
Wanted == CASE Filter = "all" -> TRUE [] Filter = "disjoint" -> exOK [] Filter = "conflict" -> ~exOK
            [] Filter = "clean" -> Hazards = {} [] Filter = "cleandisjoint" -> exOK /\ Hazards = {}
Emit == (nops = MaxOps /\ Wanted) => PrintT("@@" \o ToJson(h))

\* ---- universes ------------------------------------------------------------------------------------------
R(x) == <<ROOT>> \o x
BaseEmpty == (<<ROOT>> :> DIR)
BaseStd   == (<<ROOT>> :> DIR) @@ (R(<<1>>) :> 1) @@ (R(<<3>>) :> DIR) @@ (R(<<3, 2>>) :> 2)
BaseTwo   == (<<ROOT>> :> DIR) @@ (R(<<1>>) :> 1) @@ (R(<<2>>) :> 2)
FPStd == {R(<<1>>), R(<<2>>), R(<<3, 1>>), R(<<3, 2>>), R(<<4, 1>>), R(<<4, 2>>)}
DPStd == {R(<<3>>), R(<<4>>), R(<<3, 4>>)}
\* a universe in which a name can be a file at one time and a folder at another (TYPE hazards)
\* a small universe in which the two sides collide often (conflict families)
FPConf == {R(<<1>>), R(<<2>>), R(<<3, 2>>)}
DPConf == {R(<<3>>)}
\* C12: objects outside the roots - another folder (11), the prefix sibling <root>X (12), an account-root file (6)
BaseOut == BaseStd @@ (<<11>> :> DIR) @@ (<<11, 1>> :> 7) @@ (<<12>> :> DIR) @@ (<<12, 2>> :> 8) @@ (<<6>> :> 9)
FPOut == {R(<<1>>), R(<<2>>), R(<<3, 2>>), <<11, 1>>, <<11, 2>>, <<12, 2>>, <<12, 1>>, <<6>>}
DPOut == {R(<<3>>), R(<<4>>), <<11, 3>>, <<12, 3>>, <<4>>}
\* names differing only by case (1 = "a", 5 = "A"; 3 = "d", 7 = "D"): case-only renames on case-insensitive sides
FPCase == {R(<<1>>), R(<<5>>), R(<<3, 2>>), R(<<7, 2>>)}
DPCase == {R(<<3>>), R(<<7>>)}
FPMix == {R(<<1>>), R(<<2>>), R(<<3>>), R(<<3, 1>>), R(<<2, 1>>)}
DPMix == {R(<<2>>), R(<<3>>)}
=============================================================================

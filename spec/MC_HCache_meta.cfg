\* design-level run of HCache.tla with metadata: one name (paths a, a/a), ids {1,2}, metadata values {0,1}
CONSTANTS
  Names = {"a"}
  Ids = {1, 2}
  Depth = 2
  CaseFold = FALSE
  Metas = {0, 1}
SPECIFICATION HSpec
INVARIANT TypeOK
INVARIANT Coherent
INVARIANT RoundTrip
INVARIANT StepProps
CHECK_DEADLOCK FALSE

\* design run (quick): folder laws on folders AS SPELLED, all 8 conventions: every raw string |p| <= 2 as the folder,
\* relative part |q| <= 1, every raw string |r| <= 1 as the new folder of replace_path
CONSTANTS
  Seps = {1, 2}
  Cases = {TRUE, FALSE}
  Wins = {TRUE, FALSE}
  Wins2 = {}
  LP = 2
  LQ = 1
  LR = 1
SPECIFICATION PathsSpec
INVARIANT DesignSRaw
CHECK_DEADLOCK FALSE

CONSTANTS
  MaxEnts = 2
  Times = {0, 2, 5}
  Prios = {1, 2, 3}
  Ages = {0, 2, 4}
  Nows = {5, 7}
SPECIFICATION Spec
INVARIANT Emit
CHECK_DEADLOCK FALSE

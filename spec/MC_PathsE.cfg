\* design run (quick): all one-sided laws on names that change under lower(): alphabet { / A : E-acute(upper) I-dot-above i
\* combining-dot } - U+0130 lower-cases to TWO characters - all 8 conventions, |p| <= 3, |q| <= 1
CONSTANTS
  Seps = {1, 2}
  Cases = {TRUE, FALSE}
  Wins = {TRUE, FALSE}
  Wins2 = {}
  LP = 3
  LQ = 1
  LR = 0
  Ext = {1, 4, 8, 9, 10, 11, 12}
SPECIFICATION PathsSpec
INVARIANT DesignU
INVARIANT DesignB
INVARIANT DesignT
CHECK_DEADLOCK FALSE

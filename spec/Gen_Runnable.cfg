CONSTANTS
  Ctls = {1, 2}
  Owner = 1
  OpKinds = {"start", "stopTW", "stopTN", "stopFW", "wake", "wait"}
  Outcomes = {"did", "exc", "sstopF"}
  MaxCalls = 3
  MaxDo = 2
  UseUntil = FALSE
  PreStarted = FALSE
  FixedStopOrder = 0
  ResetInRun = FALSE
  BMin = 4
  BMax = 18
  BMulP = 3
  BMulQ = 2
  Sleeps = {8}
  PauseMax = FALSE
  MaxTok = 7
  PreBoot = FALSE
SPECIFICATION GenSpec
INVARIANT Emit
CHECK_DEADLOCK FALSE

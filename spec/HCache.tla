------------------------------- MODULE HCache -------------------------------
(***************************************************************************)
(* C19.  Reference model of cloudsync.hierarchical_cache.HierarchicalCache: a  *)
(* plain dictionary  node : normalised path -> [oid, type, meta]  with the     *)
(* documented eviction rules, one action per public mutating call:             *)
(*   create / mkdir / rename / delete(path=) / delete(oid=) / set_oid / update *)
(*   / set_metadata(path=|oid=).                                               *)
(* Rules (docstrings + cloudsync/tests/test_hierarchical_cache.py):            *)
(*   - inserting at a path evicts whatever was there, with its descendants;    *)
(*   - giving an id to a node evicts the previous holder of that id, with its  *)
(*     descendants (an id is held by at most one node);                        *)
(*   - inserting below a missing parent, or below a file, creates id-less      *)
(*     parent folders (what __insert_node does);                               *)
(*   - rename moves the whole subtree and evicts whatever was at the target;   *)
(*     renaming a path that is not cached still evicts the target;             *)
(*   - delete of a folder forgets all descendants;                             *)
(*   - a type change, or a different id on a node that has one, replaces the   *)
(*     node (its descendants and metadata are forgotten).                      *)
(* Where the code misbehaves (an id handed to a relative of its holder, case   *)
(* variants) the model states the INTENDED result of the rules above.          *)
(*                                                                            *)
(* A path is a sequence of names; the root <<>> is implicit (always a folder). *)
(* oid 0 = "no id"; type 0 = absent, 1 = FILE, 2 = DIR; meta 0 = {} else the   *)
(* value of the single metadata key.  Names are strings; on a case-insensitive *)
(* provider "A" folds to "a" and "B" to "b".                                   *)
(***************************************************************************)
EXTENDS Naturals, FiniteSets, Sequences, TLC

CONSTANTS Names,     \* raw names a caller may use, e.g. {"a","b"} or {"a","b","A"}
          Ids,       \* pool of object ids (naturals >= 1)
          Depth,     \* maximal path length, both of call arguments and of cached paths
          CaseFold,  \* TRUE = case-insensitive provider
          Metas      \* metadata values a caller may pass (0 = empty dictionary)

VARIABLE node        \* the dictionary (the only state; calls are the labels of the transitions)

FILE == 1
DIR  == 2
NoMeta == 9          \* result of get_metadata when there is no node

Fold(x) == IF ~CaseFold THEN x ELSE IF x = "A" THEN "a" ELSE IF x = "B" THEN "b" ELSE x
Norm(p) == [k \in 1..Len(p) |-> Fold(p[k])]
NNames   == {Fold(x) : x \in Names}
RawPaths == UNION {[1..d -> Names]  : d \in 1..Depth}
NPaths   == UNION {[1..d -> NNames] : d \in 1..Depth}

Front(p)          == SubSeq(p, 1, Len(p) - 1)
IsPrefix(p, q)    == Len(p) <= Len(q) /\ \A k \in 1..Len(p) : p[k] = q[k]
StrictPrefix(p, q) == Len(p) < Len(q) /\ IsPrefix(p, q)
Suffix(p, q)      == SubSeq(q, Len(p) + 1, Len(q))           \* q = p \o Suffix(p, q) when IsPrefix(p, q)

Rec(i, t, m) == [oid |-> i, type |-> t, meta |-> m]
Absent == Rec(0, 0, 0)
Empty  == [p \in NPaths |-> Absent]
At(n, p)      == IF p \in DOMAIN n THEN n[p] ELSE Absent
Exists(n, p)  == At(n, p).type # 0
Live(n)       == {p \in DOMAIN n : n[p].type # 0}
Holders(n, i) == IF i = 0 THEN {} ELSE {p \in DOMAIN n : n[p].type # 0 /\ n[p].oid = i}
IdsOf(n)      == {n[p].oid : p \in Live(n)} \ {0}
Height(n, p)  == LET L == {Len(q) - Len(p) : q \in {r \in Live(n) : IsPrefix(p, r)}}
                 IN IF L = {} THEN 0 ELSE CHOOSE h \in L : \A g \in L : g <= h

\* ---- pure effect operators (shared with the generator and the trace specification) -----------
Evict(n, p)   == [q \in DOMAIN n |-> IF IsPrefix(p, q) THEN Absent ELSE n[q]]
EvictId(n, i) == LET H == Holders(n, i)
                 IN IF H = {} THEN n ELSE [q \in DOMAIN n |-> IF \E h \in H : IsPrefix(h, q) THEN Absent ELSE n[q]]
WithParents(n, p) == [q \in DOMAIN n |-> IF StrictPrefix(q, p) /\ n[q].type # DIR THEN Rec(0, DIR, 0) ELSE n[q]]

\* the previous holder of the id goes first (with descendants), then id-less parents, then the old occupant
Insert(n, p, r) == LET n1 == EvictId(n, r.oid)
                       n2 == WithParents(n1, p)
                       n3 == Evict(n2, p)
                   IN [n3 EXCEPT ![p] = r]

RenameEff(n, src, dst) ==
  IF ~Exists(n, src) THEN Evict(n, dst)
  ELSE LET n1 == Evict(Evict(n, src), dst)
           n2 == WithParents(n1, dst)
       IN [q \in DOMAIN n |-> IF IsPrefix(dst, q) THEN At(n, src \o Suffix(dst, q)) ELSE n2[q]]

SetOidEff(n, p, i, t) ==
  IF ~Exists(n, p) THEN Insert(n, p, Rec(i, t, 0))
  ELSE IF n[p].oid = i THEN n
  ELSE IF n[p].oid = 0
       THEN LET n1 == EvictId(n, i)          \* the holder may be an ancestor: then the node itself went with it
            IN IF Exists(n1, p) THEN [n1 EXCEPT ![p].oid = i] ELSE Insert(n1, p, Rec(i, n[p].type, 0))
       ELSE Insert(n, p, Rec(i, n[p].type, 0))   \* a different id: the node is replaced

Merge(old, m) == IF m = 0 THEN old ELSE m
UpdateEff(n, p, t, i, m, keep) ==
  LET n0 == IF Exists(n, p) /\ n[p].type # t THEN Evict(n, p) ELSE n
  IN IF ~Exists(n0, p) THEN Insert(n0, p, Rec(i, t, m))
     ELSE LET n1 == IF i # 0 THEN SetOidEff(n0, p, i, t) ELSE n0
          IN [n1 EXCEPT ![p].meta = IF keep = 1 THEN Merge(@, m) ELSE m]

SetMetaEff(n, P, m) == [q \in DOMAIN n |-> IF q \in P /\ n[q].type # 0 THEN [n[q] EXCEPT !.meta = m] ELSE n[q]]

\* A call is a record with the same fields for every operation (unused ones are <<>> / 0):
\*   op, p (path), q (second path of rename), i (id), t (type), m (metadata value), k (keep)
Call(op, p, q, i, t, m, k) == [op |-> op, p |-> p, q |-> q, i |-> i, t |-> t, m |-> m, k |-> k]

Eff(n, c) ==
  CASE c.op = "create"        -> Insert(n, Norm(c.p), Rec(c.i, FILE, 0))
    [] c.op = "mkdir"         -> Insert(n, Norm(c.p), Rec(c.i, DIR, 0))
    [] c.op = "rename"        -> RenameEff(n, Norm(c.p), Norm(c.q))
    [] c.op = "delete_path"   -> Evict(n, Norm(c.p))
    [] c.op = "delete_oid"    -> EvictId(n, c.i)
    [] c.op = "set_oid"       -> SetOidEff(n, Norm(c.p), c.i, c.t)
    [] c.op = "update"        -> UpdateEff(n, Norm(c.p), c.t, c.i, c.m, c.k)
    [] c.op = "set_meta_path" -> SetMetaEff(n, {Norm(c.p)}, c.m)
    [] c.op = "set_meta_oid"  -> SetMetaEff(n, Holders(n, c.i), c.m)
    [] OTHER                  -> n

\* the result must fit into the bounded universe (only rename can make a path longer)
Fits(n, c) == c.op = "rename" /\ Exists(n, Norm(c.p)) => Len(c.q) + Height(n, Norm(c.p)) <= Depth

\* ---- lookups of the reference dictionary ------------------------------------------------------
GetOid(n, p)   == At(n, Norm(p)).oid
GetType(n, p)  == At(n, Norm(p)).type
GetMeta(n, p)  == IF Exists(n, Norm(p)) THEN n[Norm(p)].meta ELSE NoMeta
HasPath(n, i)  == Holders(n, i) # {}
GetPath(n, i)  == CHOOSE p \in Holders(n, i) : TRUE
ListDirN(n, p) == {q[Len(q)] : q \in {r \in Live(n) : Len(r) = Len(p) + 1 /\ IsPrefix(p, r)}}
ListDir(n, p)  == IF Exists(n, Norm(p)) THEN ListDirN(n, Norm(p)) ELSE {}
WalkAll(n)     == Live(n) \cup {<<>>}

\* ---- hazard tags of ONE call, computed on the state it is applied to (DESIGN.md 5.2) ----------
Target(c) == IF c.op = "rename" THEN Norm(c.q) ELSE Norm(c.p)
GivesId(c) == c.op \in {"create", "mkdir", "set_oid", "update"} /\ c.i # 0
Inserts(n, c) ==                      \* the call puts a (new or moved) node at Target(c)
  \/ c.op \in {"create", "mkdir"}
  \/ c.op = "rename" /\ Exists(n, Norm(c.p))
  \/ c.op \in {"set_oid", "update"} /\ ~Exists(n, Norm(c.p))
  \/ c.op = "update" /\ Exists(n, Norm(c.p)) /\ n[Norm(c.p)].type # c.t
NewType(n, c) ==
  CASE c.op = "create" -> FILE [] c.op = "mkdir" -> DIR [] c.op \in {"set_oid", "update"} -> c.t
    [] c.op = "rename" -> At(n, Norm(c.p)).type [] OTHER -> 0

\* Hazards (a listed finding is about each of them):
\*   CASE_VARIANT      rename to a target whose last name is not in folded form (the name is stored as spelled)
\*   ID_ON_ANCESTOR    a node is given the id that a proper ancestor of it holds   (with ID_ON_RELATIVE)
\*   KEEP_ON_REPLACED  update(keep=True, metadata) of a node whose id changes, i.e. which is replaced
\* Descriptive (measured failure-free on the unchanged tree; no finding may rest on them alone):
\*   ID_ON_DESCENDANT (+ID_ON_RELATIVE), ID_MOVE, ID_CHANGE, IMPLICIT_PARENT, TYPE_CHANGE, CASE_SPELLING,
\*   RENAME_INTO_SELF, RENAME_ONTO_ANCESTOR, RENAME_MISSING
Tags(n, c) ==
  LET p == Target(c)
      H == IF GivesId(c) THEN Holders(n, c.i) \ {p} ELSE {}
      idchange == GivesId(c) /\ c.op \in {"set_oid", "update"} /\ Exists(n, p) /\ n[p].oid \notin {0, c.i}
                  /\ (c.op = "set_oid" \/ n[p].type = c.t)
  IN  (IF c.op = "rename" /\ Len(c.q) > 0 /\ Fold(c.q[Len(c.q)]) # c.q[Len(c.q)] THEN {"CASE_VARIANT"} ELSE {})
 \cup (IF \E k \in 1..Len(c.p) : Fold(c.p[k]) # c.p[k] THEN {"CASE_SPELLING"} ELSE {})
 \cup (IF \E k \in 1..Len(c.q) : Fold(c.q[k]) # c.q[k] THEN {"CASE_SPELLING"} ELSE {})
 \cup (IF H # {} THEN {"ID_MOVE"} ELSE {})
 \cup (IF \E h \in H : StrictPrefix(h, p) THEN {"ID_ON_RELATIVE", "ID_ON_ANCESTOR"} ELSE {})
 \cup (IF \E h \in H : StrictPrefix(p, h) THEN {"ID_ON_RELATIVE", "ID_ON_DESCENDANT"} ELSE {})
 \cup (IF Inserts(n, c) /\ \E q \in DOMAIN n : StrictPrefix(q, p) /\ n[q].type # DIR THEN {"IMPLICIT_PARENT"} ELSE {})
 \cup (IF Inserts(n, c) /\ Exists(n, p) /\ n[p].type # NewType(n, c) THEN {"TYPE_CHANGE"} ELSE {})
 \cup (IF idchange THEN {"ID_CHANGE"} ELSE {})
 \cup (IF idchange /\ c.op = "update" /\ c.k = 1 /\ c.m # 0 THEN {"KEEP_ON_REPLACED"} ELSE {})
 \cup (IF c.op = "rename" /\ StrictPrefix(Norm(c.p), Norm(c.q)) THEN {"RENAME_INTO_SELF"} ELSE {})
 \cup (IF c.op = "rename" /\ StrictPrefix(Norm(c.q), Norm(c.p)) THEN {"RENAME_ONTO_ANCESTOR"} ELSE {})
 \cup (IF c.op = "rename" /\ ~Exists(n, Norm(c.p)) THEN {"RENAME_MISSING"} ELSE {})

\* ---- the property, over a structure given as a set of node records [p, oid, type, meta] ---------
\* (the same operators judge the model's own state and the structure observed in the code)
AsSet(n) == {[p |-> p, oid |-> n[p].oid, type |-> n[p].type, meta |-> n[p].meta] : p \in Live(n)}

TreeShapeS(S)  == /\ \A r \in S : Len(r.p) >= 1 /\ r.type \in {FILE, DIR}
                                  /\ (Len(r.p) > 1 => \E s \in S : s.p = Front(r.p) /\ s.type = DIR)
                  /\ \A r, s \in S : Norm(r.p) = Norm(s.p) => r = s          \* one node per (folded) path
NoSharedIdS(S) == \A r, s \in S : r.oid # 0 /\ r.oid = s.oid => r.p = s.p
InverseS(S)    == \A r \in S : r.oid # 0 => \A s \in S : s.oid = r.oid => s.p = r.p

CoherentN(n) == LET S == AsSet(n) IN TreeShapeS(S) /\ NoSharedIdS(S) /\ InverseS(S)
Coherent == CoherentN(node)

Keeps == IF Metas = {0} THEN {1} ELSE {0, 1}      \* keep is immaterial without metadata
AllCalls ==
       {Call("create", p, <<>>, i, 0, 0, 0) : p \in RawPaths, i \in Ids}
  \cup {Call("mkdir", p, <<>>, i, 0, 0, 0) : p \in RawPaths, i \in Ids \cup {0}}
  \cup {Call("rename", p, q, 0, 0, 0, 0) : p \in RawPaths, q \in RawPaths}
  \cup {Call("delete_path", p, <<>>, 0, 0, 0, 0) : p \in RawPaths}
  \cup {Call("delete_oid", <<>>, <<>>, i, 0, 0, 0) : i \in Ids}
  \cup {Call("set_oid", p, <<>>, i, t, 0, 0) : p \in RawPaths, i \in Ids, t \in {FILE, DIR}}
  \cup {Call("update", p, <<>>, i, t, m, k) : p \in RawPaths, i \in Ids \cup {0}, t \in {FILE, DIR}, m \in Metas, k \in Keeps}
  \cup {Call("set_meta_path", p, <<>>, 0, 0, m, 0) : p \in RawPaths, m \in Metas}
  \cup {Call("set_meta_oid", <<>>, <<>>, i, 0, m, 0) : i \in Ids, m \in Metas}

HInit == node = Empty
Do(c) == Fits(node, c) /\ node' = Eff(node, c)
HNext == \E c \in AllCalls : Do(c)
HSpec == HInit /\ [][HNext]_node

\* ---- design-level properties ------------------------------------------------------------------
TypeOK == /\ DOMAIN node = NPaths
          /\ \A p \in NPaths : node[p].oid \in Ids \cup {0} /\ node[p].type \in {0, FILE, DIR}
                               /\ (node[p].type = 0 => node[p] = Absent)

\* id -> path -> id and path -> id -> path through the lookups
RoundTrip == /\ \A i \in Ids : HasPath(node, i) => GetOid(node, GetPath(node, i)) = i
             /\ \A p \in NPaths : GetOid(node, p) # 0 => HasPath(node, GetOid(node, p)) /\ GetPath(node, GetOid(node, p)) = p

\* Step properties are stated for one call c taking n to n2 and checked as a state invariant over every call
\* enabled in every reachable state (the call is not part of the state, which keeps the graph small).

\* deleting or replacing a folder forgets all its descendants; delete never adds anything
Gone(n, n2, p) == \A q \in DOMAIN n : StrictPrefix(p, q) => ~Exists(n2, q)
DescendantsForgottenC(n, c, n2) ==
  /\ c.op = "delete_path" => ~Exists(n2, Norm(c.p)) /\ Gone(n, n2, Norm(c.p))
  /\ c.op = "delete_oid" => \A h \in Holders(n, c.i) : ~Exists(n2, h) /\ Gone(n, n2, h)
  /\ c.op \in {"create", "mkdir"} => Gone(n, n2, Norm(c.p))
  /\ c.op \in {"delete_path", "delete_oid"} => IdsOf(n2) \subseteq IdsOf(n) /\ Live(n2) \subseteq Live(n)

\* rename moves the whole subtree: every node below the source is found below the target, unchanged
SubtreeMovedC(n, c, n2) ==
  c.op = "rename" /\ Exists(n, Norm(c.p)) =>
     \A q \in Live(n) : IsPrefix(Norm(c.p), q) => At(n2, Norm(c.q) \o Suffix(Norm(c.p), q)) = n[q]

\* nothing but the addressed paths / ids and their relatives changes
FrameC(n, c, n2) ==
  \A q \in DOMAIN n :
     (/\ ~IsPrefix(Target(c), q) /\ ~IsPrefix(q, Target(c))
      /\ ~(c.op = "rename" /\ IsPrefix(Norm(c.p), q))
      /\ \A h \in Holders(n, c.i) : ~IsPrefix(h, q)
      /\ c.op \notin {"delete_oid", "set_meta_oid"})
     => n2[q] = n[q]

\* the id and path a call hands out are there afterwards
EffectVisibleC(n, c, n2) ==
  /\ c.op \in {"create", "mkdir", "set_oid"} => GetOid(n2, c.p) = c.i
  /\ c.op = "create" => GetType(n2, c.p) = FILE
  /\ c.op = "mkdir" => GetType(n2, c.p) = DIR
  /\ c.op = "update" =>
        LET kept == /\ GetType(n, c.p) = c.t /\ (c.i = 0 \/ GetOid(n, c.p) \in {0, c.i})     \* the node is not replaced
                    /\ ~\E h \in Holders(n, c.i) : StrictPrefix(h, Norm(c.p))
        IN /\ GetType(n2, c.p) = c.t /\ (c.i # 0 => GetOid(n2, c.p) = c.i)
           /\ GetMeta(n2, c.p) = (IF kept /\ c.k = 1 /\ c.m = 0 THEN GetMeta(n, c.p) ELSE c.m)
  /\ c.op = "set_meta_path" /\ Exists(n, Norm(c.p)) => GetMeta(n2, c.p) = c.m

StepProps == \A c \in AllCalls : Fits(node, c) =>
   LET n2 == Eff(node, c)
   IN DescendantsForgottenC(node, c, n2) /\ SubtreeMovedC(node, c, n2) /\ FrameC(node, c, n2) /\ EffectVisibleC(node, c, n2)
=============================================================================

------------------------------- MODULE Storage -------------------------------
(***************************************************************************)
(* C09.  A storage backend is a durable, tag-isolated map (tag, id) -> bytes. *)
(* One action per method of cloudsync.sync.state.Storage; close/reopen is an  *)
(* explicit action.  The result of every call is part of the action (variable *)
(* `res`), because the property is observational equivalence with this map.   *)
(*                                                                            *)
(* rows[t] is a function whose DOMAIN is exactly the set of live ids of tag t. *)
(* Values are small naturals (classes of byte strings: empty, ascii, non-utf8, *)
(* big, integer-as-cursor); 0 (= NoVal) is "nothing".                         *)
(***************************************************************************)
EXTENDS Naturals, FiniteSets, Sequences, TLC

CONSTANTS Tags,      \* set of tags (small naturals)
          Ids,       \* universe of ids a backend may hand out
          Vals       \* set of value classes (naturals >= 1)

NoVal == 0

VARIABLES rows,      \* [Tags -> [live ids -> Vals]]
          isOpen,    \* handle open?
          res        \* result record of the last call (observation)

svars == <<rows, isOpen, res>>

Live(r, t) == DOMAIN r[t]

\* ---- pure effect / result operators (shared with the trace specification) ----
CreateEff(r, t, i, v) == [r EXCEPT ![t] = [j \in DOMAIN r[t] \cup {i} |-> IF j = i THEN v ELSE r[t][j]]]
UpdateOK(r, t, i)     == i \in Live(r, t)
UpdateEff(r, t, i, v) == IF UpdateOK(r, t, i) THEN [r EXCEPT ![t][i] = v] ELSE r
DeleteEff(r, t, i)    == [r EXCEPT ![t] = [j \in DOMAIN r[t] \ {i} |-> r[t][j]]]
ReadRes(r, t, i)      == IF i \in Live(r, t) THEN r[t][i] ELSE NoVal
ReadAllRes(r, t)      == {<<i, r[t][i]>> : i \in Live(r, t)}
ReadAllTagsRes(r)     == UNION {{<<t, i, r[t][i]>> : i \in Live(r, t)} : t \in Tags}
TagsListed(r)         == {t \in Tags : Live(r, t) # {}}

StorageInit ==
  /\ rows = [t \in Tags |-> <<>>]
  /\ isOpen = TRUE
  /\ res = [op |-> "init"]

\* create: the backend chooses the id; any id not live under that tag is acceptable (FreshId)
Create(t, v, i) ==
  /\ isOpen /\ i \notin Live(rows, t)
  /\ rows' = CreateEff(rows, t, i, v)
  /\ res' = [op |-> "create", tag |-> t, val |-> v, id |-> i]
  /\ UNCHANGED isOpen

Update(t, i, v) ==
  /\ isOpen
  /\ rows' = UpdateEff(rows, t, i, v)
  /\ res' = [op |-> "update", tag |-> t, id |-> i, val |-> v, ok |-> IF UpdateOK(rows, t, i) THEN 1 ELSE 0]
  /\ UNCHANGED isOpen

Delete(t, i) ==
  /\ isOpen
  /\ rows' = DeleteEff(rows, t, i)
  /\ res' = [op |-> "delete", tag |-> t, id |-> i]
  /\ UNCHANGED isOpen

Read(t, i) ==
  /\ isOpen
  /\ res' = [op |-> "read", tag |-> t, id |-> i, val |-> ReadRes(rows, t, i)]
  /\ UNCHANGED <<rows, isOpen>>

ReadAll(t) ==
  /\ isOpen
  /\ res' = [op |-> "read_all", tag |-> t, m |-> ReadAllRes(rows, t)]
  /\ UNCHANGED <<rows, isOpen>>

ReadAllTags ==
  /\ isOpen
  /\ res' = [op |-> "read_all_tags", mm |-> ReadAllTagsRes(rows)]
  /\ UNCHANGED <<rows, isOpen>>

\* close the handle and open a new one over the same file / backing object: Durable
Reopen ==
  /\ isOpen
  /\ res' = [op |-> "reopen"]
  /\ UNCHANGED <<rows, isOpen>>

StorageNext ==
  \/ \E t \in Tags, v \in Vals, i \in Ids : Create(t, v, i)
  \/ \E t \in Tags, i \in Ids, v \in Vals : Update(t, i, v)
  \/ \E t \in Tags, i \in Ids : Delete(t, i)
  \/ \E t \in Tags, i \in Ids : Read(t, i)
  \/ \E t \in Tags : ReadAll(t)
  \/ ReadAllTags
  \/ Reopen

StorageSpec == StorageInit /\ [][StorageNext]_svars

\* ---- properties of the design -------------------------------------------------------------
TypeOK ==
  /\ \A t \in Tags : DOMAIN rows[t] \subseteq Ids /\ \A i \in DOMAIN rows[t] : rows[t][i] \in Vals
  /\ isOpen \in BOOLEAN

\* an operation on one tag never affects another tag, even when ids coincide
TagIsolation ==
  [][\A t \in Tags : ("tag" \in DOMAIN res' /\ res'.tag # t) => rows'[t] = rows[t]]_svars

\* only create/update/delete change anything, and then only the addressed (tag, id)
Frame ==
  [][\A t \in Tags : \A i \in Ids :
        (res'.op \in {"read", "read_all", "read_all_tags", "reopen"}
           \/ (res'.op \in {"create", "update", "delete"} /\ res'.id # i))
        => (i \in Live(rows, t)) = (i \in Live(rows', t))
           /\ (i \in Live(rows, t) => rows'[t][i] = rows[t][i])]_svars

\* create never reuses an id that is live under its tag; the created row reads back
FreshId == [][res'.op = "create" => res'.id \notin Live(rows, res'.tag)
                                  /\ ReadRes(rows', res'.tag, res'.id) = res'.val]_svars

\* update of a missing row is an error and changes nothing; delete is idempotent
UpdateMissingIsError ==
  [][res'.op = "update" /\ res'.id \notin Live(rows, res'.tag) => res'.ok = 0 /\ rows' = rows]_svars
DeleteIdempotent ==
  [][res'.op = "delete" => res'.id \notin Live(rows', res'.tag)
                          /\ DeleteEff(rows', res'.tag, res'.id) = rows']_svars
Durable == [][res'.op = "reopen" => rows' = rows]_svars
=============================================================================

------------------------------ MODULE Gen_Smart ------------------------------
(***************************************************************************)
(* Generator of the C20 family (on-demand sync).  Remote holds files a, d/b   *)
(* and the folder d; local has only the mirrored folder.  A behaviour is a     *)
(* sequence of MaxOps actions:                                                  *)
(*   remote user: create b / overwrite a file / delete a file                   *)
(*   local user : create e / overwrite a local file                             *)
(*   application: request a remote file by path or by id / un-request a          *)
(*                requested file / list the root folder (only at quiet points)    *)
(* each followed by a schedule token: "Q" run to quiet, "IS" intake + one sync    *)
(* step, "N" nothing.  The generator tracks which files exist where and which are *)
(* requested, only to emit applicable actions.                                    *)
(***************************************************************************)
EXTENDS Naturals, Sequences, FiniteSets, TLC, Json
CONSTANTS MaxOps, Gaps
VARIABLES rf, lf, req, atq, h, n
vars == <<rf, lf, req, atq, h, n>>
A == <<10, 1>>   B == <<10, 2>>   DB == <<10, 3, 2>>   E == <<10, 4>>
Files == {A, B, DB, E}
Cid == 30 + n
GapToks(g) == CASE g = "Q" -> << <<"Q">> >> [] g = "IS" -> << <<"EL", 0>>, <<"ER", 0>>, <<"S">> >> [] g = "N" -> <<>>

Init == rf = {A, DB} /\ lf = {} /\ req = {} /\ atq = TRUE /\ h = <<>> /\ n = 0
Act(tok, g, rf2, lf2, req2) ==
  /\ n < MaxOps /\ n' = n + 1
  /\ h' = h \o <<tok>> \o GapToks(g)
  /\ rf' = rf2 /\ lf' = lf2 /\ req' = req2
  /\ atq' = (g = "Q")
Next == \E g \in Gaps :
  \/ \E p \in {B} \ rf : Act(<<"U", 1, <<"create", p, Cid>>>>, g, rf \cup {p}, lf, req)
  \/ \E p \in rf : Act(<<"U", 1, <<"write", p, Cid>>>>, g, rf, lf, req)
  \/ \E p \in rf : Act(<<"U", 1, <<"delete", p>>>>, g, rf \ {p}, IF atq THEN lf \ {p} ELSE lf, req)
  \/ \E p \in {E} \ (lf \cup rf) : Act(<<"U", 0, <<"create", p, Cid>>>>, g, IF g = "Q" THEN rf \cup {p} ELSE rf, lf \cup {p}, req)
  \/ \E p \in lf : Act(<<"U", 0, <<"write", p, Cid>>>>, g, rf, lf, req)
  \/ (atq /\ \E p \in rf \ req : \E how \in {"path", "oid"} : Act(<<"Req", how, p>>, g, rf, lf \cup {p}, req \cup {p}))
  \/ (atq /\ \E p \in req : Act(<<"Unreq", p>>, g, rf, lf \ {p}, req \ {p}))
  \/ (atq /\ Act(<<"List", <<10>>>>, "N", rf, lf, req))
Spec == Init /\ [][Next]_vars
Emit == n = MaxOps => PrintT("@@" \o ToJson(h \o << <<"Q">>, <<"List", <<10>>>> >>))
=============================================================================

\* sample generator configuration (the check writes its own, see vh/checks/c19.py gen_cfg): every
\* (hazard-free-reachable state, call) with prefixes of up to 2 calls, case-sensitive provider
CONSTANTS
  Names = {"a", "b"}
  Ids = {1, 2, 3}
  Depth = 2
  CaseFold = FALSE
  Metas = {0}
  MaxLen = 3
  Mode = "graph"
  Hazards = {"CASE_VARIANT", "ID_ON_ANCESTOR", "KEEP_ON_REPLACED"}
  Ops = {"create", "mkdir", "rename", "delete_path", "delete_oid", "set_oid", "update"}
  LastOps = {"create", "mkdir", "rename", "delete_path", "delete_oid", "set_oid", "update"}
SPECIFICATION GenSpec
INVARIANT Emit
VIEW GraphView
CHECK_DEADLOCK FALSE

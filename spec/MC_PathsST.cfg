\* design run (thorough): folder laws on folders as spelled, all 8 conventions: every raw string |p| <= 3, |q| <= 1, |r| <= 1,
\* and the 14 listed re-spellings of join(p), join(r) (two-name folders: separators doubled inside)
CONSTANTS
  Seps = {1, 2}
  Cases = {TRUE, FALSE}
  Wins = {TRUE, FALSE}
  Wins2 = {}
  LP = 3
  LQ = 1
  LR = 1
  Ext = {}
SPECIFICATION PathsSpec
INVARIANT DesignSRaw
INVARIANT DesignSSpell
CHECK_DEADLOCK FALSE

\* design-level run of HCache.tla, case-sensitive provider: the whole reachable state graph (every call sequence)
CONSTANTS
  Names = {"a", "b"}
  Ids = {1, 2, 3}
  Depth = 2
  CaseFold = FALSE
  Metas = {0}
SPECIFICATION HSpec
INVARIANT TypeOK
INVARIANT Coherent
INVARIANT RoundTrip
INVARIANT StepProps
CHECK_DEADLOCK FALSE

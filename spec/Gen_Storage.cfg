CONSTANTS
  Tags = {1, 2}
  Ids = {1, 2}
  Vals = {1, 2}
  MaxLen = 3
SPECIFICATION GenSpec
INVARIANT Emit
CHECK_DEADLOCK FALSE

---------------------------- MODULE Trace_Runnable ----------------------------
(* C18, property monitor on recorded traces of the real Runnable.  Every logged event (taken under one   *)
(* recorder lock: call / return of a controller call, entry of do / interruptable_sleep / wake / wait /   *)
(* done / run, entry of Thread.start() inside start(), the until() predicate firing, the log line at the head of the finally block, return of run())    *)
(* drives the monitor operators of Runnable.tla; the clauses they find false are recorded in TLC register *)
(* 1 as <<trace, line, clause>>.  Total: nothing here can block.  The monitor is a function of the        *)
(* recorded order only; timing never decides.  Whether the trace is a behaviour of the implementation-    *)
(* shaped model (some placement of the unlogged shared-variable steps) is Trace_RunnableConc's job.       *)
(*                                                                                                        *)
(* Line 1 of a trace is its configuration: backoff parameters as scaled integers (min, max, mult = p/q,   *)
(* the ordinary sleep), all in units of 1/65536 s.                                                        *)
EXTENDS Runnable, Json, IOUtils
VARIABLES tid, l
tvars == <<sh, lp, ac, ncalls, g, ga, bad, tid, l>>

Traces == JsonDeserialize(IOEnv.TRACE_FILE)
Tr  == Traces[tid]
Cfg == Tr[1]
Ev  == Tr[l]

Rec(S) == IF S = {} THEN TRUE ELSE TLCSet(1, TLCGet(1) \cup {<<tid, l, c>> : c \in S})

TraceInit ==
  /\ tid \in 1..Len(Traces) /\ l = 2
  /\ Init

Adv == /\ l' = l + 1
       /\ IF l = Len(Tr) THEN TLCSet(2, TLCGet(2) + 1) ELSE TRUE
       /\ UNCHANGED <<sh, lp, ac, ncalls, bad, tid>>

TCall  == Ev.e = "call" /\ g' = GCallG(g, ga, Ev.a, Ev.kd) /\ ga' = GCallA(g, ga, Ev.a, Ev.kd) /\ Adv
TRet   == /\ Ev.e = "ret" /\ Rec(GRetBad(g, ga, Ev.a, Ev.res))
          /\ g' = GRetG(g, ga, Ev.a, Ev.res) /\ ga' = GRetA(ga, Ev.a) /\ Adv
TWkE   == Ev.e = "wkE" /\ ga' = GWakeEnterA(ga, Ev.a) /\ UNCHANGED g /\ Adv
TWkX   == Ev.e = "wkX" /\ ga' = GWakeExitA(ga, Ev.a) /\ UNCHANGED g /\ Adv
TWtE   == Ev.e = "wtE" /\ ga' = GWaitEnterA(ga, Ev.a) /\ g' = GWaitEnterG(g, ga, Ev.a) /\ Adv
\* start-up of the loop thread: Thread.start() entered by the starter / run() entered by the loop thread.  No clause
\* is evaluated on them; they delimit the window "started, loop thread has not run yet" in the recorded order
TThS   == Ev.e = "thS" /\ UNCHANGED <<g, ga>> /\ Adv
TRun   == Ev.e = "run" /\ UNCHANGED <<g, ga>> /\ Adv
TDo    == Ev.e = "do" /\ Rec(GDoBad(g)) /\ g' = GDoG(g, Ev.out) /\ UNCHANGED ga /\ Adv
\* the law (Runnable.tla: Pause / Match) with the parameters of this trace, loop sleep included (Cfg.norm)
TSleep == Ev.e = "sleep" /\ Rec(GSleepBad(g, Match(Cfg, g.k, Rat(Ev.req)))) /\ UNCHANGED <<g, ga>> /\ Adv
TUntil == Ev.e = "until" /\ g' = GUntilG(g) /\ ga' = GUntilA(ga) /\ Adv
TFin   == Ev.e = "fin" /\ Rec(GFinBad(g, ga)) /\ g' = GFinG(g, ga) /\ UNCHANGED ga /\ Adv
TDone  == Ev.e = "done" /\ Rec(GDoneBad(g)) /\ g' = GDoneG(g) /\ UNCHANGED ga /\ Adv
TExit  == Ev.e = "exit" /\ Rec(GExitBad(Ev.exc = 1)) /\ g' = GExitG(g, ga) /\ UNCHANGED ga /\ Adv

TraceNext ==
  /\ l <= Len(Tr)
  /\ TCall \/ TRet \/ TWkE \/ TWkX \/ TWtE \/ TThS \/ TRun \/ TDo \/ TSleep \/ TUntil \/ TFin \/ TDone \/ TExit
TraceSpec == TraceInit /\ [][TraceNext]_tvars

ASSUME TLCSet(1, {}) /\ TLCSet(2, 0)
Report == PrintT("@@" \o ToJson([violations |-> TLCGet(1), completed |-> TLCGet(2), traces |-> Len(Traces)]))
=============================================================================

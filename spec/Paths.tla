-------------------------------- MODULE Paths --------------------------------
(***************************************************************************)
(* C13.  Path algebra of cloudsync.provider.Provider (join, split,            *)
(* normalize_path_separators, normalize_path, is_subpath, replace_path,       *)
(* paths_match, dirname, basename) and CloudSync.translate.                   *)
(*                                                                            *)
(* A path is a sequence of character codes.  A provider path convention is a  *)
(* record  c = [sep |-> SLASH or BSLASH, cs |-> case sensitive?, win |-> drive *)
(* letters?]; the alternate separator is the other slash.                     *)
(*                                                                            *)
(* Part 1: the helpers, transcribed one-to-one (the design: what each helper  *)
(*         is meant to return).                                               *)
(* Part 2: observations: for given inputs, the record of helper results a law *)
(*         talks about.  Obs*(...) computes it with the operators of part 1;  *)
(*         the Python driver computes the same record with the REAL helpers.  *)
(* Part 3: the LAWS of the property, as predicates over (inputs, observation).*)
(*         MC_Paths*.cfg checks them on Obs*; Trace_Paths checks them on the  *)
(*         observations recorded from the code.                               *)
(* Part 4: a state machine enumerating (c, c2, p, q, r) for the design run and *)
(*         for the generator.                                                 *)
(*                                                                            *)
(* Kinds of cases: U (one string), B (pair: folder join(p), relative part q), *)
(* T (triple: + new folder join(r)), X (translation, roots join(p), join(r)), *)
(* S (folder laws on folders AS SPELLED: p and r are handed to the helpers     *)
(* un-normalised - separators at the end, doubled, alternate), Y (translation  *)
(* with the two roots as spelled).                                             *)
(***************************************************************************)
EXTENDS Naturals, Sequences, FiniteSets

SLASH  == 1     \* '/'
BSLASH == 2     \* '\'
LA     == 3     \* 'a'
UA     == 4     \* 'A'
DOT    == 5     \* '.'
SPACE  == 6     \* ' '
EACUTE == 7     \* U+00E9 (non-ASCII, lower() leaves it alone)
COLON  == 8     \* ':'  (only interesting where win is TRUE)
UEACUTE == 9    \* U+00C9 'E acute' (non-ASCII cased letter: lower() gives U+00E9)
UIDOT  == 10    \* U+0130 'I with dot above': the one character whose lower() is TWO characters, 'i' U+0307
LI     == 11    \* 'i'
CDOT   == 12    \* U+0307 combining dot above (lower() leaves it alone)

Alt(c)      == 3 - c.sep
IsSepCh(ch) == ch = SLASH \/ ch = BSLASH
\* str.lower(): a per-character map into strings - one character maps to two, so lower-casing can change the length
LowerS(ch)  == CASE ch = UA -> <<LA>> [] ch = UEACUTE -> <<EACUTE>> [] ch = UIDOT -> <<LI, CDOT>> [] OTHER -> <<ch>>
RECURSIVE LowerFrom(_, _)
LowerFrom(s, i) == IF i > Len(s) THEN <<>> ELSE LowerS(s[i]) \o LowerFrom(s, i + 1)
Lower(s)    == IF \E i \in 1..Len(s) : s[i] = UIDOT THEN LowerFrom(s, 1)
               ELSE [i \in 1..Len(s) |-> LowerS(s[i])[1]]            \* (no length change: character by character)
NonEmpty(s) == Len(s) > 0

\* ============================== Part 1: the helpers ==============================

\* str.rstrip(x) / str.lstrip(x) / str.strip(x) for a one-character x
RECURSIVE REnd(_, _, _)
REnd(s, x, n) == IF n > 0 /\ s[n] = x THEN REnd(s, x, n - 1) ELSE n          \* last position that is not x (0 = none)
RECURSIVE LBeg(_, _, _)
LBeg(s, x, n) == IF n <= Len(s) /\ s[n] = x THEN LBeg(s, x, n + 1) ELSE n    \* first position that is not x
RStrip(s, x) == SubSeq(s, 1, REnd(s, x, Len(s)))
LStrip(s, x) == SubSeq(s, LBeg(s, x, 1), Len(s))
Strip(s, x)  == LStrip(RStrip(s, x), x)

\* normalize_path_separators: alt -> sep, then strip trailing separators; what is left of a path of separators is the root
NormSeps(c, p) ==
  IF Len(p) = 0 THEN p
  ELSE LET rp == [i \in 1..Len(p) |-> IF p[i] = Alt(c) THEN c.sep ELSE p[i]]
           st == RStrip(rp, c.sep)
       IN IF Len(st) = 0 THEN <<c.sep>> ELSE st             \* a path made of separators only is the root

RECURSIVE Interleave(_, _)
Interleave(parts, x) == IF Len(parts) = 1 THEN parts[1] ELSE parts[1] \o <<x>> \o Interleave(Tail(parts), x)

HasDrive(s) == Len(s) >= 2 /\ s[2] = COLON

\* join(*paths): drop blanks, normalise separators, rstrip the first / strip the others, glue with sep, make absolute
\* unless (win) the result starts with a drive.  (The code indexes joined[1] without a length test; the design is
\* "no drive unless the second character is a colon".)
Join(c, parts) ==
  LET x      == c.sep
      normed == SelectSeq([i \in 1..Len(parts) |-> NormSeps(c, parts[i])], NonEmpty)
      st     == SelectSeq([i \in 1..Len(normed) |-> IF i = 1 THEN RStrip(normed[i], x) ELSE Strip(normed[i], x)], NonEmpty)
  IN IF Len(st) = 0 THEN <<x>>
     ELSE LET j == Interleave(st, x)
          IN IF c.win /\ HasDrive(j) THEN j
             ELSE IF j[1] # x THEN <<x>> \o j ELSE j

\* split(path) -> <<dirname, basename>>, like os.path.split
RECURSIVE RFind(_, _, _)
RFind(s, x, n) == IF n > 0 /\ s[n] # x THEN RFind(s, x, n - 1) ELSE n         \* str.rfind, 1-based, 0 = absent
Split(c, p) ==
  LET path == NormSeps(c, p)
      idx  == RFind(path, c.sep, Len(path))
  IN IF idx = 0 THEN << <<>>, path >>
     ELSE IF idx = 1 THEN << <<c.sep>>, SubSeq(path, 2, Len(path)) >>
     ELSE << SubSeq(path, 1, idx - 1), SubSeq(path, idx + 1, Len(path)) >>
Dirname(c, p)  == Split(c, p)[1]
Basename(c, p) == Split(c, p)[2]

\* maximal runs of characters other than x (i = scan position, st = start of the run being read, 0 = none)
RECURSIVE RunsFrom(_, _, _, _)
RunsFrom(s, x, i, st) ==
  IF i > Len(s) THEN (IF st > 0 THEN <<SubSeq(s, st, Len(s))>> ELSE <<>>)
  ELSE IF s[i] = x THEN (IF st > 0 THEN <<SubSeq(s, st, i - 1)>> ELSE <<>>) \o RunsFrom(s, x, i + 1, 0)
  ELSE RunsFrom(s, x, i + 1, IF st > 0 THEN st ELSE i)
Runs(s, x) == RunsFrom(s, x, 1, 0)

\* re.split("[sep]+", s): pieces between runs of separators, with the empty pieces at both ends
SplitRuns(s, x) ==
  IF Len(s) = 0 THEN << <<>> >>
  ELSE (IF s[1] = x THEN << <<>> >> ELSE <<>>) \o Runs(s, x) \o (IF s[Len(s)] = x THEN << <<>> >> ELSE <<>>)

\* normalize_path(path, for_display)
NormalizePath(c, p, disp) ==
  LET np == Join(c, SplitRuns(NormSeps(c, p), c.sep))
  IN IF c.cs THEN np
     ELSE IF disp THEN Join(c, << Lower(Dirname(c, np)), Basename(c, np) >>)
     ELSE Lower(np)

PathsMatch(c, a, b, disp) == NormalizePath(c, a, disp) = NormalizePath(c, b, disp)

\* results that may be "nothing" are sequences whose head says what follows: <<0>> False/None, <<1>> \o string,
\* <<2>> True, <<3, code>> exception (code 0 = not evaluated because an input was not available, 1 IndexError,
\* 2 ValueError, 9 anything else).  This is also the JSON form the driver writes.
No       == <<0>>
Yes      == <<2>>
Str(s)   == <<1>> \o s
Exc(e)   == <<3, e>>
Skip     == Exc(0)
Bool(b)  == IF b THEN Yes ELSE No
K(res)   == res[1]
V(res)   == Tail(res)

\* is_subpath(folder, target, strict) -> No, or Str(relative part)
IsSubpath(c, folder, target, strict) ==
  IF Len(folder) = 0 \/ Len(target) = 0 THEN No
  ELSE LET ff  == NormSeps(c, folder)
           tf  == NormSeps(c, target)
           ffc == IF c.cs THEN ff ELSE Lower(ff)
           tfc == IF c.cs THEN tf ELSE Lower(tf)
       IN IF ffc = tfc THEN (IF strict THEN No ELSE Str(<<c.sep>>))
          ELSE IF Len(ffc) = 1 /\ ffc[1] = c.sep /\ Len(tfc) > 0 /\ tfc[1] = c.sep THEN Str(tf)
          ELSE IF Len(tf) > Len(ff) /\ tf[Len(ff) + 1] = c.sep /\ SubSeq(tfc, 1, Len(ffc)) = ffc
               THEN Str(SubSeq(tf, Len(ff) + 1, Len(tf)))
          ELSE No

\* replace_path(path, from_dir, to_dir) -> Str(new path) or ValueError
ReplacePath(c, path, from, to) ==
  LET rel == IsSubpath(c, from, path, FALSE)
  IN IF K(rel) = 1 THEN Str(NormSeps(c, to) \o (IF V(rel) = <<c.sep>> THEN <<>> ELSE V(rel)))
     ELSE Exc(2)

\* CloudSync.translate(side, path): cc = <<convention of side 0, of side 1>>, roots likewise; sides are 0 / 1
Translate(cc, roots, side, path) ==
  LET rel == IsSubpath(cc[2 - side], roots[2 - side], path, FALSE)
  IN IF K(rel) # 1 THEN No ELSE Str(Join(cc[side + 1], <<roots[side + 1], V(rel)>>))

\* ============================== yardsticks used by the laws ==============================
\* the names of a path, whatever separators were used
Comps(s)    == Runs([i \in 1..Len(s) |-> IF s[i] = BSLASH THEN SLASH ELSE s[i]], SLASH)
LowerAll(cs) == [i \in 1..Len(cs) |-> Lower(cs[i])]
Fold(c, cs) == IF c.cs THEN cs ELSE LowerAll(cs)
\* target lies in the tree of root, name by name (case-folded where the provider is case-insensitive)
SemInside(c, root, t) ==
  LET cr == Fold(c, Comps(root))
      ct == Fold(c, Comps(t))
  IN Len(cr) <= Len(ct) /\ SubSeq(ct, 1, Len(cr)) = cr
\* a relative part must not be drive-qualified where drive letters exist (join("\", "a:") is "a:", as on Windows)
RelOK(c, q) == ~(c.win /\ Len(Comps(q)) > 0 /\ HasDrive(Comps(q)[1]))

\* ============================== spellings of a folder ==============================
\* The same absolute folder can be written in many ways: separators at the end, doubled separators, the alternate
\* separator, and mixtures.  The folder laws hold for every string that names an absolute folder, however spelled;
\* what a spelling means is the sequence of names it spells (Comps above): the normalised form the laws compute on.
AbsSpelling(c, f) == Len(f) > 0 /\ (IsSepCh(f[1]) \/ (c.win /\ HasDrive(f)))

\* f re-written: its leading separator as `lead`, every later separator as `inner` (strings), `trail` appended
RECURSIVE RespellFrom(_, _, _, _, _)
RespellFrom(f, x, i, lead, inner) ==
  IF i > Len(f) THEN <<>>
  ELSE (IF f[i] # x THEN <<f[i]>> ELSE IF i = 1 THEN lead ELSE inner) \o RespellFrom(f, x, i + 1, lead, inner)
Respell(c, f, lead, inner, trail) == RespellFrom(f, c.sep, 1, lead, inner) \o trail

\* Spell(c, f, k): spelling number k of the absolute folder f = Join(c, <<p>>)   (examples for sep = '/', f = /a/b)
NSpell == 13
Spell(c, f, k) ==
  LET s == <<c.sep>>
      a == <<Alt(c)>>
  IN CASE k = 0  -> f                                         \* /a/b      as join writes it
       [] k = 1  -> Respell(c, f, s, s, s)                     \* /a/b/     separator at the end
       [] k = 2  -> Respell(c, f, s, s, a)                     \* /a/b\     alternate separator at the end
       [] k = 3  -> Respell(c, f, s, s, s \o s)                \* /a/b//    two separators at the end
       [] k = 4  -> Respell(c, f, s, s, a \o s)                \* /a/b\/    mixed pair at the end
       [] k = 5  -> Respell(c, f, s, s, s \o a)                \* /a/b/\    mixed pair at the end
       [] k = 6  -> Respell(c, f, a, a, <<>>)                  \* \a\b      alternate separators throughout
       [] k = 7  -> Respell(c, f, a, a, a)                     \* \a\b\     ... and one at the end
       [] k = 8  -> Respell(c, f, a, a, s)                     \* \a\b/     ... and a primary one at the end
       [] k = 9  -> Respell(c, f, s, s \o s, <<>>)             \* /a//b     doubled inside
       [] k = 10 -> Respell(c, f, s, s \o a, <<>>)             \* /a/\b     mixed pair inside
       [] k = 11 -> Respell(c, f, s, s \o s, s)                \* /a//b/    doubled inside and one at the end
       [] k = 12 -> Respell(c, f, s \o s, s, <<>>)             \* //a/b     doubled in front
       [] k = 13 -> Respell(c, f, a \o a, a \o a, a \o a)      \* \\a\\b\\  everything doubled, alternate

\* the stratum of a spelling, computed from the string alone: which separators it uses and where they pile up
LastName(f)  == CHOOSE i \in 0..Len(f) : (i = 0 \/ ~IsSepCh(f[i])) /\ \A j \in (i + 1)..Len(f) : IsSepCh(f[j])
RootRespelled(f) == Len(f) > 1 /\ Comps(f) = <<>>           \* the root written with more than one separator
SpellShape(c, f) ==
  IF Len(f) = 0 THEN "EMPTY"
  ELSE IF Comps(f) = <<>> THEN (IF Len(f) > 1 THEN "ROOT_RESPELLED" ELSE "PLAIN")
  ELSE LET n    == Len(f)
           ln   == LastName(f)
           alt  == \E i \in 1..n : f[i] = Alt(c)
           dbl  == \E i \in 1..(ln - 1) : IsSepCh(f[i]) /\ IsSepCh(f[i + 1])
       IN IF ~alt /\ ~dbl /\ ln = n THEN "PLAIN"
          ELSE (IF alt THEN "ALT" ELSE "SEP") \o (IF dbl THEN "_DOUBLED" ELSE "")
               \o (IF n - ln >= 2 THEN "_TRAIL2" ELSE IF n - ln = 1 THEN "_TRAIL" ELSE "")

\* A stratum of its own: the root re-spelled, with a relative part without names.  normalize_path_separators used to turn
\* a root written with two or more separators into the empty string, so the folder laws failed on this input class; it was
\* held under this tag (c13.py, HELD) until the helper was repaired (a path made of separators only is the root, NormSeps
\* above).  The tag stays as the name of the stratum; the design runs include the class.
HeldTag == "ROOT_RESPELLED_EMPTYREL"
HeldJoin(f, q)       == RootRespelled(f) /\ Comps(q) = <<>>
HeldReplace(f, q, g) == (RootRespelled(f) \/ RootRespelled(g)) /\ Comps(q) = <<>>

\* Input class on which the UNCHANGED helpers do not satisfy the unary / equality laws (reported to the maintainers; the cases
\* are generated, executed and judged like all others, the driver lists their law failures under this stratum tag instead of
\* reporting them - c13.py, HELD): drive letters on, case-insensitive, and a string whose first name starts with U+0130 ':',
\* i.e. a "drive" whose letter lower() turns into two characters.  join leaves "U+0130 :" alone as a drive, its lower-cased
\* form 'i' U+0307 ':' has no ':' in second place any more and is made absolute: normalize_path is not idempotent there
\* (normalize_path("\u0130:") = "i\u0307:", normalize_path("i\u0307:") = "/i\u0307:") and a path does not match its normal form.
DriveTag == "DRIVE_LETTER_FOLD_GROWS"
DriveFoldGrows(c, s) ==
  c.win /\ ~c.cs /\ Len(Comps(s)) > 0 /\ Len(Comps(s)[1]) >= 2 /\ Comps(s)[1][1] = UIDOT /\ Comps(s)[1][2] = COLON
HeldIn(c, strings) == \E s \in strings : DriveFoldGrows(c, s)

\* ============================== Part 2: observations ==============================
\* (sub-results are shared through LET; PathsMatch(a, b, d) is written Norm(a, d) = Norm(b, d) on shared normal forms)
OnStr(r, e)     == IF K(r) = 1 THEN e ELSE Skip      \* a helper applied to something that is not a string is not evaluated
Norm(c, s, d)   == NormalizePath(c, s, d)

ObsU(c, p) ==
  LET n0  == Norm(c, p, FALSE)
      n1  == Norm(c, p, TRUE)
      nn0 == Norm(c, n0, FALSE)
      nn1 == Norm(c, n1, TRUE)
      sp  == Split(c, p)
      sj  == Join(c, <<sp[1], sp[2]>>)
  IN [ ns  |-> Str(NormSeps(c, p)),
       j1  |-> Str(Join(c, <<p>>)),
       n0  |-> Str(n0), n1 |-> Str(n1), nn0 |-> Str(nn0), nn1 |-> Str(nn1),
       sd  |-> Str(sp[1]), sb |-> Str(sp[2]),
       dn  |-> Str(Dirname(c, p)), bn |-> Str(Basename(c, p)),
       sj  |-> Str(sj),
       msj0 |-> Bool(Norm(c, sj, FALSE) = n0), msj1 |-> Bool(Norm(c, sj, TRUE) = n1),   \* paths_match(sj, p, d)
       mr0 |-> Bool(n0 = n0), mr1 |-> Bool(n1 = n1),                                     \* paths_match(p, p, d)
       mn0 |-> Bool(n0 = nn0), mn1 |-> Bool(n1 = nn1) ]                                  \* paths_match(p, n_d, d)

ObsB(c, p, q) ==
  LET np0 == Norm(c, p, FALSE)
      nq0 == Norm(c, q, FALSE)
      np1 == Norm(c, p, TRUE)
      nq1 == Norm(c, q, TRUE)
      f   == Join(c, <<p>>)
      t   == Join(c, <<f, q>>)
      sub == IsSubpath(c, f, t, FALSE)
      sib == f \o q
      jpq == Str(Join(c, <<p, q>>))
  IN [ mpq0 |-> Bool(np0 = nq0), mqp0 |-> Bool(nq0 = np0), mpq1 |-> Bool(np1 = nq1), mqp1 |-> Bool(nq1 = np1),
       np0 |-> Str(np0), nq0 |-> Str(nq0), np1 |-> Str(np1), nq1 |-> Str(nq1),
       f |-> Str(f), t |-> Str(t),
       sub |-> sub, subs |-> IsSubpath(c, f, t, TRUE),
       sroot |-> sub,                                                  \* is_subpath_of_root(t), root path set to f
       jr |-> OnStr(sub, Str(Join(c, <<f, V(sub)>>))),                  \* folder joined with the reported relative part
       mrel |-> OnStr(sub, Bool(Norm(c, V(sub), FALSE) = nq0)),         \* reported relative part vs the part joined
       self |-> IsSubpath(c, f, f, FALSE), selfs |-> IsSubpath(c, f, f, TRUE),
       sib |-> Str(sib), ssub |-> IsSubpath(c, f, sib, FALSE), ssubs |-> IsSubpath(c, f, sib, TRUE),
       raw |-> IsSubpath(c, p, q, FALSE), raws |-> IsSubpath(c, p, q, TRUE),   \* arbitrary pair (conformance only)
       jpq |-> jpq, jl |-> jpq ]                                               \* join(p, q) and join([p, q])

ObsT(c, p, q, r) ==
  LET np0 == Norm(c, p, FALSE)
      nq0 == Norm(c, q, FALSE)
      nr0 == Norm(c, r, FALSE)
      np1 == Norm(c, p, TRUE)
      nq1 == Norm(c, q, TRUE)
      nr1 == Norm(c, r, TRUE)
      f   == Join(c, <<p>>)
      g   == Join(c, <<r>>)
      t   == Join(c, <<f, q>>)
      rel == IsSubpath(c, f, t, FALSE)
      out == ReplacePath(c, t, f, g)
      rel2 == OnStr(out, IsSubpath(c, g, V(out), FALSE))
  IN [ mpq0 |-> Bool(np0 = nq0), mqr0 |-> Bool(nq0 = nr0), mpr0 |-> Bool(np0 = nr0),
       mpq1 |-> Bool(np1 = nq1), mqr1 |-> Bool(nq1 = nr1), mpr1 |-> Bool(np1 = nr1),
       f |-> Str(f), g |-> Str(g), t |-> Str(t), rel |-> rel, out |-> out, rel2 |-> rel2,
       mrel |-> IF K(rel2) = 1 /\ K(rel) = 1 THEN Bool(Norm(c, V(rel2), FALSE) = Norm(c, V(rel), FALSE)) ELSE Skip,
       mout |-> OnStr(out, Bool(Norm(c, V(out), FALSE) = Norm(c, Join(c, <<g, q>>), FALSE))),
       rawrep |-> ReplacePath(c, q, p, r) ]       \* replace_path(q, p, r) on arbitrary strings (conformance only)

\* translation: side 0 has convention ca and root A, side 1 has cb and root B
ObsRoots(ca, cb, A, B, q) ==
  LET cc == <<ca, cb>>
      rt == <<A, B>>
      ta == Join(ca, <<A, q>>)                            \* a path of side 0 inside its root
      xa == Translate(cc, rt, 1, ta)                      \* ... translated to side 1
      ba == OnStr(xa, Translate(cc, rt, 0, V(xa)))         \* ... and back
      tb == Join(cb, <<B, q>>)
      xb == Translate(cc, rt, 0, tb)
      bb == OnStr(xb, Translate(cc, rt, 1, V(xb)))
      oa == Join(ca, <<q>>)                               \* an arbitrary absolute path of side 0
      ob == Join(cb, <<q>>)
  IN [ A |-> Str(A), B |-> Str(B),
       ta |-> Str(ta), xa |-> xa, ba |-> ba, mba |-> OnStr(ba, Bool(PathsMatch(ca, V(ba), ta, FALSE))),
       tb |-> Str(tb), xb |-> xb, bb |-> bb, mbb |-> OnStr(bb, Bool(PathsMatch(cb, V(bb), tb, FALSE))),
       oa |-> Str(oa), xoa |-> Translate(cc, rt, 1, oa), xqa |-> Translate(cc, rt, 1, q),
       ob |-> Str(ob), xob |-> Translate(cc, rt, 0, ob), xqb |-> Translate(cc, rt, 0, q) ]
\* X: the roots are join(r0), join(r1);  Y: the roots are r0, r1 as spelled
ObsX(ca, cb, r0, r1, q) == ObsRoots(ca, cb, Join(ca, <<r0>>), Join(cb, <<r1>>), q)
ObsY(ca, cb, r0, r1, q) == ObsRoots(ca, cb, r0, r1, q)

\* folder laws on folders as spelled: fs (the folder) and gs (the new folder of replace_path) go to the helpers as they are
ObsS(c, fs, q, gs) ==
  LET jf   == Join(c, <<fs>>)
      t    == Join(c, <<fs, q>>)
      sub  == IsSubpath(c, fs, t, FALSE)
      sib  == jf \o q                                               \* the folder's last name prolonged by q
      out  == ReplacePath(c, t, fs, gs)
      rel2 == OnStr(out, IsSubpath(c, gs, V(out), FALSE))
  IN [ jf |-> Str(jf), t |-> Str(t),
       sub |-> sub, subs |-> IsSubpath(c, fs, t, TRUE),
       sroot |-> sub,                                                \* is_subpath_of_root(t), root path set to fs
       jr |-> OnStr(sub, Str(Join(c, <<fs, V(sub)>>))),
       mrel |-> OnStr(sub, Bool(Norm(c, V(sub), FALSE) = Norm(c, q, FALSE))),
       self |-> IsSubpath(c, fs, fs, FALSE), selfs |-> IsSubpath(c, fs, fs, TRUE),
       sib |-> Str(sib), ssub |-> IsSubpath(c, fs, sib, FALSE), ssubs |-> IsSubpath(c, fs, sib, TRUE),
       out |-> out, rel2 |-> rel2,
       mrel2 |-> IF K(rel2) = 1 /\ K(sub) = 1 THEN Bool(Norm(c, V(rel2), FALSE) = Norm(c, V(sub), FALSE)) ELSE Skip,
       mout |-> OnStr(out, Bool(Norm(c, V(out), FALSE) = Norm(c, Join(c, <<gs, q>>), FALSE))) ]

\* ============================== Part 3: the laws ==============================
IsStr(r)  == K(r) = 1
IsYes(r)  == K(r) = 2
IsNo(r)   == K(r) = 0
IsBool(r) == K(r) = 0 \/ K(r) = 2
Leaf(cs)  == IF Len(cs) = 0 THEN <<>> ELSE cs[Len(cs)]
Front(cs) == IF Len(cs) = 0 THEN <<>> ELSE SubSeq(cs, 1, Len(cs) - 1)

\* ---- unary: every string p ----
NormIdem(c, p, o) == IsStr(o.n0) /\ o.nn0 = o.n0 /\ IsStr(o.n1) /\ o.nn1 = o.n1
SplitJoin(c, p, o) ==
  /\ IsStr(o.sd) /\ IsStr(o.sb) /\ IsStr(o.sj)
  /\ IsYes(o.msj0) /\ IsYes(o.msj1)                          \* join(split(p)) is equivalent to p
  /\ o.dn = o.sd /\ o.bn = o.sb                              \* dirname / basename are the two halves
  /\ \A i \in 1..Len(V(o.sb)) : V(o.sb)[i] # c.sep             \* the leaf is one name
MatchReflexive(c, p, o) == IsYes(o.mr0) /\ IsYes(o.mr1)
MatchOwnNormalForm(c, p, o) == IsYes(o.mn0) /\ IsYes(o.mn1)  \* p is equivalent to normalize_path(p)
\* normalising changes separators only, and case only where the provider is case-insensitive; the display
\* form differs from the comparison form in case only and keeps the leaf as written
CaseRule(c, p, o) ==
  /\ IsStr(o.n0) /\ IsStr(o.n1)
  /\ IF c.cs THEN Comps(V(o.n0)) = Comps(p) /\ o.n1 = o.n0
     ELSE /\ Comps(V(o.n0)) = LowerAll(Comps(p))
          /\ Lower(V(o.n1)) = V(o.n0)
          /\ Leaf(Comps(V(o.n1))) = Leaf(Comps(p))
          /\ Front(Comps(V(o.n1))) = Front(Comps(V(o.n0)))
          /\ Front(Comps(V(o.n1))) = LowerAll(Front(Comps(p)))     \* the folders folded (expected value computed here)

\* ---- binary: every pair (p, q); folder laws on the absolute folder f = join(p) and the relative part q ----
MatchSymmetric(c, p, q, o) ==
  /\ IsBool(o.mpq0) /\ IsBool(o.mpq1) /\ o.mqp0 = o.mpq0 /\ o.mqp1 = o.mpq1
MatchAgreesNorm(c, p, q, o) ==
  /\ IsStr(o.np0) /\ IsStr(o.nq0) /\ IsStr(o.np1) /\ IsStr(o.nq1)
  /\ IsYes(o.mpq0) = (o.np0 = o.nq0) /\ IsBool(o.mpq0)
  /\ IsYes(o.mpq1) = (o.np1 = o.nq1) /\ IsBool(o.mpq1)
  /\ (~c.cs /\ LowerAll(Comps(p)) = LowerAll(Comps(q))) => IsYes(o.mpq0)     \* folded where insensitive
  /\ (c.cs /\ IsYes(o.mpq0)) => Comps(p) = Comps(q)                          \* and only there
  /\ IsYes(o.mpq1) => IsYes(o.mpq0) /\ Leaf(Comps(p)) = Leaf(Comps(q))       \* display equality keeps the leaf's case
JoinIsSubpath(c, p, q, o) ==
  RelOK(c, q) =>
    /\ IsStr(o.f) /\ IsStr(o.t) /\ IsStr(o.sub)
    /\ o.jr = o.t                                   \* folder + reported relative part = the joined path
    /\ IsYes(o.mrel)                                \* the reported relative part is the part that was joined
    /\ o.sroot = o.sub
    /\ IsStr(o.self) /\ IsNo(o.selfs)               \* a folder is inside itself, but not strictly
    /\ o.subs = (IF o.t = o.f THEN No ELSE o.sub)
PrefixSiblingNotSubpath(c, p, q, o) ==
  (IsStr(o.f) /\ V(o.f) # <<c.sep>> /\ Len(q) > 0 /\ ~IsSepCh(q[1]))
     => (IsNo(o.ssub) /\ IsNo(o.ssubs))

\* ---- ternary ----
MatchTransitive(c, p, q, r, o) ==
  /\ IsBool(o.mpq0) /\ IsBool(o.mqr0) /\ IsBool(o.mpr0) /\ IsBool(o.mpq1) /\ IsBool(o.mqr1) /\ IsBool(o.mpr1)
  /\ (IsYes(o.mpq0) /\ IsYes(o.mqr0)) => IsYes(o.mpr0)
  /\ (IsYes(o.mpq1) /\ IsYes(o.mqr1)) => IsYes(o.mpr1)
ReplaceMovesRelative(c, p, q, r, o) ==
  RelOK(c, q) =>
    /\ IsStr(o.rel) /\ IsStr(o.out) /\ IsStr(o.rel2) /\ IsStr(o.g)
    /\ IsYes(o.mrel)                                           \* inside the new folder, same relative part
    /\ IsYes(o.mout)                                           \* equivalent to joining the new folder with it
    /\ Comps(V(o.out)) = Comps(V(o.g)) \o Comps(V(o.rel))         \* names moved exactly, case untouched

\* ---- translation (side 0: a path of side 0 goes to side 1 and back; side 1: the other direction) ----
TranslateRoundTrip(side, ca, cb, r0, r1, q, o) ==
  (RelOK(ca, q) /\ RelOK(cb, q)) =>
    IF side = 0 THEN IsStr(o.xa) /\ IsStr(o.ba) /\ IsYes(o.mba)
    ELSE IsStr(o.xb) /\ IsStr(o.bb) /\ IsYes(o.mbb)
TranslateOutsideIsNone(side, ca, cb, r0, r1, q, o) ==
  IF side = 0
  THEN /\ IsStr(o.A) /\ IsStr(o.oa)
       /\ ~SemInside(ca, V(o.A), V(o.oa)) => IsNo(o.xoa)
       /\ ~SemInside(ca, V(o.A), q) => IsNo(o.xqa)
  ELSE /\ IsStr(o.B) /\ IsStr(o.ob)
       /\ ~SemInside(cb, V(o.B), V(o.ob)) => IsNo(o.xob)
       /\ ~SemInside(cb, V(o.B), q) => IsNo(o.xqb)

\* ---- the folder laws on folders as spelled (kind S).  The expected values are computed here, on normalised forms: the
\* names a string spells (Comps); the code's results are judged against them ----
JoinIsSubpathS(c, fs, q, o) ==
  (AbsSpelling(c, fs) /\ RelOK(c, q)) =>
    /\ IsStr(o.jf) /\ IsStr(o.t) /\ IsStr(o.sub)
    /\ Comps(V(o.t)) = Comps(fs) \o Comps(q)         \* joining: the folder's names, then the relative part's names
    /\ Comps(V(o.sub)) = Comps(q)                    \* reported inside, with exactly the names that were joined
    /\ o.jr = o.t                                    \* folder + reported relative part = the joined path
    /\ IsYes(o.mrel)
    /\ o.sroot = o.sub
    /\ IsStr(o.self) /\ IsNo(o.selfs)                \* a folder is inside itself, but not strictly
    /\ o.subs = (IF Comps(q) = <<>> THEN No ELSE o.sub)
PrefixSiblingNotSubpathS(c, fs, q, o) ==
  (AbsSpelling(c, fs) /\ IsStr(o.jf) /\ Comps(fs) # <<>> /\ Len(q) > 0 /\ ~IsSepCh(q[1]))
     => (IsNo(o.ssub) /\ IsNo(o.ssubs))
ReplaceMovesRelativeS(c, fs, q, gs, o) ==
  (AbsSpelling(c, fs) /\ AbsSpelling(c, gs) /\ RelOK(c, q)) =>
    /\ IsStr(o.sub) /\ IsStr(o.out) /\ IsStr(o.rel2)
    /\ IsYes(o.mrel2)                                         \* inside the new folder, same relative part
    /\ IsYes(o.mout)                                          \* equivalent to joining the new folder with it
    /\ Comps(V(o.out)) = Comps(gs) \o Comps(q)                 \* names moved exactly, case untouched

\* ---- translation with the roots as spelled (kind Y): the laws of kind X, for every pair of absolute spellings ----
HoldsXLaw(law, side, ca, cb, r0, r1, q, o) ==
  CASE law = "TranslateRoundTrip" -> TranslateRoundTrip(side, ca, cb, r0, r1, q, o)
    [] law = "TranslateOutsideIsNone" -> TranslateOutsideIsNone(side, ca, cb, r0, r1, q, o)

LawsU == {"NormIdem", "SplitJoin", "MatchReflexive", "MatchOwnNormalForm", "CaseRule"}
LawsB == {"MatchSymmetric", "MatchAgreesNorm", "JoinIsSubpath", "PrefixSiblingNotSubpath"}
LawsT == {"MatchTransitive", "ReplaceMovesRelative"}
LawsX == {"TranslateRoundTrip", "TranslateOutsideIsNone"}
LawsS == {"JoinIsSubpath", "PrefixSiblingNotSubpath", "ReplaceMovesRelative"}     \* the same laws, folders as spelled
LawsY == LawsX

HoldsU(law, c, p, o) ==
  CASE law = "NormIdem" -> NormIdem(c, p, o) [] law = "SplitJoin" -> SplitJoin(c, p, o)
    [] law = "MatchReflexive" -> MatchReflexive(c, p, o) [] law = "MatchOwnNormalForm" -> MatchOwnNormalForm(c, p, o)
    [] law = "CaseRule" -> CaseRule(c, p, o)
HoldsB(law, c, p, q, o) ==
  CASE law = "MatchSymmetric" -> MatchSymmetric(c, p, q, o) [] law = "MatchAgreesNorm" -> MatchAgreesNorm(c, p, q, o)
    [] law = "JoinIsSubpath" -> JoinIsSubpath(c, p, q, o) [] law = "PrefixSiblingNotSubpath" -> PrefixSiblingNotSubpath(c, p, q, o)
HoldsT(law, c, p, q, r, o) ==
  CASE law = "MatchTransitive" -> MatchTransitive(c, p, q, r, o) [] law = "ReplaceMovesRelative" -> ReplaceMovesRelative(c, p, q, r, o)
HoldsX(law, side, ca, cb, r0, r1, q, o) == HoldsXLaw(law, side, ca, cb, r0, r1, q, o)
HoldsS(law, c, fs, q, gs, o) ==
  CASE law = "JoinIsSubpath" -> JoinIsSubpathS(c, fs, q, o) [] law = "PrefixSiblingNotSubpath" -> PrefixSiblingNotSubpathS(c, fs, q, o)
    [] law = "ReplaceMovesRelative" -> ReplaceMovesRelativeS(c, fs, q, gs, o)
HoldsY(law, side, ca, cb, r0, r1, q, o) ==
  (AbsSpelling(ca, r0) /\ AbsSpelling(cb, r1)) => HoldsXLaw(law, side, ca, cb, r0, r1, q, o)
\* the stratum of an S case for a law: the held input class, else how the folder is spelled
HeldS(law, fs, q, gs) == IF law = "ReplaceMovesRelative" THEN HeldReplace(fs, q, gs) ELSE HeldJoin(fs, q)

\* the observation fields a law reads (with the results they were computed from): an exception is attributed to a law
\* only when it occurred in one of these
Reads(law, side) ==
  CASE law = "NormIdem" -> {"n0", "nn0", "n1", "nn1"}
    [] law = "SplitJoin" -> {"sd", "sb", "sj", "msj0", "msj1", "dn", "bn"}
    [] law = "MatchReflexive" -> {"mr0", "mr1"}
    [] law = "MatchOwnNormalForm" -> {"n0", "n1", "mn0", "mn1"}
    [] law = "CaseRule" -> {"n0", "n1"}
    [] law = "MatchSymmetric" -> {"mpq0", "mpq1", "mqp0", "mqp1"}
    [] law = "MatchAgreesNorm" -> {"np0", "nq0", "np1", "nq1", "mpq0", "mpq1"}
    [] law = "JoinIsSubpath" -> {"f", "t", "sub", "jr", "mrel", "sroot", "self", "selfs", "subs"}
    [] law = "PrefixSiblingNotSubpath" -> {"f", "sib", "ssub", "ssubs"}
    [] law = "MatchTransitive" -> {"mpq0", "mqr0", "mpr0", "mpq1", "mqr1", "mpr1"}
    [] law = "ReplaceMovesRelative" -> {"f", "g", "t", "rel", "out", "rel2", "mrel", "mout"}
    [] law = "TranslateRoundTrip" -> IF side = 0 THEN {"A", "B", "ta", "xa", "ba", "mba"} ELSE {"A", "B", "tb", "xb", "bb", "mbb"}
    [] law = "TranslateOutsideIsNone" -> IF side = 0 THEN {"A", "B", "oa", "xoa", "xqa"} ELSE {"A", "B", "ob", "xob", "xqb"}

ReadsS(law) ==
  CASE law = "JoinIsSubpath" -> {"jf", "t", "sub", "jr", "mrel", "sroot", "self", "selfs", "subs"}
    [] law = "PrefixSiblingNotSubpath" -> {"jf", "sib", "ssub", "ssubs"}
    [] law = "ReplaceMovesRelative" -> {"t", "sub", "out", "rel2", "mrel2", "mout"}

\* ============================== Part 4: enumeration ==============================
CONSTANTS Seps, Cases, Wins,     \* which conventions (subsets of {1,2}, BOOLEAN, BOOLEAN)
          Wins2,                 \* conventions of the second side (translation); {} = one-sided run
          LP, LQ, LR,            \* length bounds of vp, vq, vr
          Ext                    \* {} = the standard alphabet; else the alphabet to enumerate (e.g. with UIDOT, UEACUTE)

VARIABLES vc, vc2, vp, vq, vr
pvars == <<vc, vc2, vp, vq, vr>>

Alpha(cv, cw) == IF Ext # {} THEN Ext ELSE IF cv.win \/ cw.win THEN 1..8 ELSE 1..7
OneSided == Wins2 = {}

PathsInit ==
  /\ vc \in [sep : Seps, cs : Cases, win : Wins]
  /\ vc2 \in IF OneSided THEN {[sep |-> SLASH, cs |-> TRUE, win |-> FALSE]} ELSE [sep : Seps, cs : Cases, win : Wins2]
  /\ vp = <<>> /\ vq = <<>> /\ vr = <<>>
\* every triple is reached along exactly one path: first vp grows, then vq, then vr
PathsNext ==
  /\ \E ch \in Alpha(vc, vc2) :
       \/ Len(vq) = 0 /\ Len(vr) = 0 /\ Len(vp) < LP /\ vp' = Append(vp, ch) /\ UNCHANGED <<vq, vr>>
       \/ Len(vr) = 0 /\ Len(vq) < LQ /\ vq' = Append(vq, ch) /\ UNCHANGED <<vp, vr>>
       \/ Len(vr) < LR /\ vr' = Append(vr, ch) /\ UNCHANGED <<vp, vq>>
  /\ UNCHANGED <<vc, vc2>>
PathsSpec == PathsInit /\ [][PathsNext]_pvars

\* the design satisfies its laws (checked by TLC for every enumerated (vc, vc2, vp, vq, vr) outside the held input class)
DesignU == HeldIn(vc, {vp}) \/ LET o == ObsU(vc, vp) IN \A law \in LawsU : HoldsU(law, vc, vp, o)
DesignB == HeldIn(vc, {vp, vq}) \/ LET o == ObsB(vc, vp, vq) IN \A law \in LawsB : HoldsB(law, vc, vp, vq, o)
DesignT == HeldIn(vc, {vp, vq, vr}) \/ LET o == ObsT(vc, vp, vq, vr) IN \A law \in LawsT : HoldsT(law, vc, vp, vq, vr, o)
DesignX == OneSided \/ HeldIn(vc, {vp, vq, vr}) \/ HeldIn(vc2, {vp, vq, vr}) \/ LET o == ObsX(vc, vc2, vp, vr, vq) IN \A law \in LawsX, side \in {0, 1} : HoldsX(law, side, vc, vc2, vp, vr, vq, o)
\* folders as spelled: every string vp / vr that is an absolute spelling (raw), and the listed re-spellings of join(vp) /
\* join(vr), which reach longer strings
DesignSRaw == HeldIn(vc, {vp, vq, vr}) \/ LET o == ObsS(vc, vp, vq, vr) IN \A law \in LawsS : HoldsS(law, vc, vp, vq, vr, o)
DesignSSpell ==
  \A k \in 0..NSpell :
    LET fs == Spell(vc, Join(vc, <<vp>>), k)
        gs == Spell(vc, Join(vc, <<vr>>), k)
        o  == ObsS(vc, fs, vq, gs)
    IN \A law \in LawsS : HoldsS(law, vc, fs, vq, gs, o)
DesignYRaw == OneSided \/ HeldIn(vc, {vp, vq, vr}) \/ HeldIn(vc2, {vp, vq, vr}) \/ LET o == ObsY(vc, vc2, vp, vr, vq) IN \A law \in LawsY, side \in {0, 1} : HoldsY(law, side, vc, vc2, vp, vr, vq, o)
DesignYSpell ==
  OneSided \/ \A k \in 0..NSpell :
    LET A == Spell(vc, Join(vc, <<vp>>), k)
        B == Spell(vc2, Join(vc2, <<vr>>), k)
        o == ObsY(vc, vc2, A, B, vq)
    IN \A law \in LawsY, side \in {0, 1} : HoldsY(law, side, vc, vc2, A, B, vq, o)
=============================================================================

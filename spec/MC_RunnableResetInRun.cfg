\* EXPECTED VIOLATION of StopCanReturn: design variant in which the loop thread (head of run()) clears the stop request instead of start(): a stop(forever=False) that lands after start() has returned and before the loop thread's first statement is erased; the stop() waits for a loop that keeps calling do()
CONSTANTS
  Ctls = {1}
  Owner = 1
  OpKinds = {"start", "stopFW", "stopFN", "wait"}
  Outcomes = {"did"}
  MaxCalls = 3
  MaxDo = 0
  UseUntil = FALSE
  PreStarted = FALSE
  FixedStopOrder = 2
  ResetInRun = TRUE
  BMin = 4
  BMax = 18
  BMulP = 3
  BMulQ = 2
  Sleeps = {8}
  PauseMax = FALSE
SPECIFICATION Spec
INVARIANT StopCanReturn
CHECK_DEADLOCK FALSE

CONSTANTS
  MaxN = 100
  Threaded = TRUE
SPECIFICATION TSpec
POSTCONDITION Report
CHECK_DEADLOCK FALSE

----------------------------- MODULE Gen_HCache -----------------------------
(* Behaviour generator for HCache.tla.  Carries the call history `h`; every call is stored with the   *)
(* hazard tags HCache!Tags computes for it on the state it is applied to.  Three uses:                 *)
(*   Mode = "seq"    every call sequence of length MaxLen, canonical up to renaming of ids (a call may  *)
(*                   use a new id only if it is the smallest unused one) and, on a case-sensitive       *)
(*                   provider, of names (the first name that occurs is "a"; also in graph mode);        *)
(*   Mode = "graph"  with VIEW GraphView: one shortest history per distinct (state, call) of the model, *)
(*                   where the history leading to the state avoids the Hazards tags (so the last call   *)
(*                   really is applied to that state in the code) -- every state of the hazard-free     *)
(*                   state graph x every call;                                                          *)
(*   Mode = "sim"    with tlc -simulate: long random call sequences, no canonical restriction;          *)
(*   Mode = "simclean"  the same, drawing only calls without a Hazards tag.                             *)
(* Ops restricts the alphabet; in graph mode LastOps restricts the LAST call of an emitted history, so   *)
(* that several TLC processes can share one family (each explores the same prefixes, emits its share).  *)
EXTENDS HCache, Json
CONSTANTS MaxLen, Mode, Hazards, Ops, LastOps
VARIABLES h,        \* history of calls with tags
          prev,     \* the state the last call was applied to
          stop      \* graph mode: the last call carried a hazard tag, the history is not extended
gvars == <<node, h, prev, stop>>

Tagged(n, c) == [op |-> c.op, p |-> c.p, q |-> c.q, i |-> c.i, t |-> c.t, m |-> c.m, k |-> c.k, tags |-> Tags(n, c)]
NoCall == Call("init", <<>>, <<>>, 0, 0, 0, 0)
Max(S) == IF S = {} THEN 0 ELSE CHOOSE x \in S : \A y \in S : y <= x

UsedIds   == {h[k].i : k \in 1..Len(h)} \ {0}
NamesSeen == \E k \in 1..Len(h) : Len(h[k].p) > 0
IdOK(c) ==
  CASE Mode = "seq"   -> c.i <= Max(UsedIds) + 1
    [] Mode = "graph" -> c.i \in IdsOf(node) \/ c.i = 0 \/ \A j \in Ids \ IdsOf(node) : c.i <= j
    [] OTHER          -> TRUE
NameOK(c) == Mode \in {"seq", "graph"} /\ ~CaseFold /\ ~NamesSeen /\ Len(c.p) > 0 => c.p[1] = "a"

GenInit == node = Empty /\ h = <<>> /\ prev = Empty /\ stop = FALSE
Step(c) ==
  /\ Do(c)
  /\ h' = Append(h, Tagged(node, c))
  /\ prev' = node
  /\ stop' = (Mode = "graph" /\ Tags(node, c) \cap Hazards # {})
GenNext ==
  \/ /\ Mode \in {"seq", "graph"} /\ Len(h) < MaxLen /\ ~stop
     /\ \E c \in AllCalls :
           /\ c.op \in Ops
           /\ Mode = "graph" /\ Len(h) = MaxLen - 1 => c.op \in LastOps
           /\ IdOK(c) /\ NameOK(c)
           /\ Step(c)
  \* simulation: one uniformly drawn enabled call per step (TLC would otherwise build every successor to pick one)
  \/ /\ Mode = "sim" /\ Len(h) < MaxLen
     /\ \E c \in {RandomElement({d \in AllCalls : d.op \in Ops /\ Fits(node, d)})} : Step(c)
  \* the same, drawn among the calls without a hazard tag: long sequences inside the stratum that must be clean
  \/ /\ Mode = "simclean" /\ Len(h) < MaxLen
     /\ \E c \in {RandomElement({d \in AllCalls : d.op \in Ops /\ Fits(node, d) /\ Tags(node, d) \cap Hazards = {}})} : Step(c)
  \/ /\ Mode \in {"sim", "simclean"} /\ Len(h) = MaxLen /\ ~stop      \* one closing step, so that a simulated behaviour is printed once
     /\ stop' = TRUE /\ UNCHANGED <<node, h, prev>>
GenSpec == GenInit /\ [][GenNext]_gvars

Strip(e) == Call(e.op, e.p, e.q, e.i, e.t, e.m, e.k)
GraphView == IF Mode = "graph" THEN <<prev, IF Len(h) = 0 THEN NoCall ELSE Strip(h[Len(h)])>> ELSE gvars

Emit == (CASE Mode = "graph" -> Len(h) > 0 /\ h[Len(h)].op \in LastOps
           [] Mode \in {"sim", "simclean"} -> stop
           [] OTHER          -> Len(h) = MaxLen) => PrintT("@@" \o ToJson(h))
=============================================================================

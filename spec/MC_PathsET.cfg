\* design run (thorough): all one-sided laws on names that change under lower(): alphabet { / A : E-acute(upper) e-acute
\* I-dot-above i combining-dot }, all 8 conventions, |p| <= 3, |q| <= 2
CONSTANTS
  Seps = {1, 2}
  Cases = {TRUE, FALSE}
  Wins = {TRUE, FALSE}
  Wins2 = {}
  LP = 3
  LQ = 2
  LR = 0
  Ext = {1, 4, 7, 8, 9, 10, 11, 12}
SPECIFICATION PathsSpec
INVARIANT DesignU
INVARIANT DesignB
INVARIANT DesignT
CHECK_DEADLOCK FALSE

---------------------------- MODULE ProviderModel ----------------------------
(***************************************************************************)
(* C16.  The provider contract the engine relies on: a reference file tree. *)
(*                                                                          *)
(* Objects are numbered 1, 2, ... in order of creation (object 1 is the     *)
(* root folder) and keep their record after deletion (exists = FALSE): the  *)
(* engine relies on a deleted id staying deleted.  `fs` is the sequence of  *)
(* object records, nextOid = Len(fs) + 1.  The PUBLIC id of an object is    *)
(* its number for id-style providers and its normalised path for path-style *)
(* ones (PubOid).  `feed` is the event stream.                              *)
(*                                                                          *)
(* Names are small integers (the JSON bridge maps them to strings):         *)
(*   1 "a"   2 "A"   3 "b"   4 "e-acute"   5 "a.b"   6 forbidden-character  *)
(* FoldName is the case folding of a case-insensitive provider.  Contents   *)
(* are ids 1..18 of fixed, pairwise DIFFERENT byte strings drawn around the *)
(* boundaries of a head+tail sampler, see the table at SizeOf.  In the      *)
(* model the hash of a file IS its content id: equal ids <=> equal hashes.  *)
(*                                                                          *)
(* The IDENTITY part of the contract (the provider is bound to the account  *)
(* of its first login; a foreign login is refused, every time) is the       *)
(* independent module ProviderIdentity.tla; Trace_Provider extends both.    *)
(*                                                                          *)
(* Every call is a PURE operator  P<Call>(f, n, args)  returning            *)
(*   [errs, oid, fs, next, evs] :  errs = set of error classes that apply   *)
(*   (empty = the call succeeds; when several conditions hold any of the    *)
(*   documented classes is acceptable), oid = returned public id, fs/next = *)
(*   the tree after the call, evs = events appended to the feed.            *)
(* The trace specification re-uses these operators on recorded calls.       *)
(***************************************************************************)
EXTENDS Naturals, Sequences, FiniteSets, TLC

CONSTANTS Names,          \* name codes in use
          MaxDepth,       \* longest path
          Contents,       \* content ids used by create / upload
          OidIsPath,      \* TRUE: path-style ids
          CaseSensitive,  \* FALSE: names are compared after FoldName
          BadNames,       \* names containing a forbidden character
          MaxMutations    \* bound used by the model-checking configurations only (see MCBound)

\* result / error classes.  NOTEMPTY is raised as the "exists" exception class by every provider.
OK == 0   EXISTS == 1   NOTFOUND == 2   NOTEMPTY == 3   NAMEERR == 4   INVALID == 6
FILE == 1   DIR == 2
ROOT == 1

\* ---- contents --------------------------------------------------------------------------------------
\* A content id stands for one byte string; different ids are different byte strings.  All strings are
\* prefixes of one text (BASE, 3000 bytes) with at most one short range of bytes replaced, so that the
\* members of a group are distinct but collide under some PARTIAL sampling of the file (a hash that only
\* looks at the first KiB, at the last KiB, at both, or that treats a sampled prefix as the whole file):
\*    c      bytes  string                                             group
\*    1          0  empty                                              1  (tiny)
\*    2          1  BASE[1..1]                                         1
\*    3, 4     700  BASE[1..700]   / its last 16 bytes replaced        2  (< 1 KiB)
\*    5, 6    1024  BASE[1..1024]  / its last byte replaced            3  (exactly the head block)
\*    7, 8    1025  BASE[1..1025]  / byte 1025 replaced                4  (head block + 1: same first KiB)
\*    9, 10   1500  BASE[1..1500]  / its last 16 bytes replaced        5  (1-2 KiB: same first KiB)
\*   11, 12   2048  BASE[1..2048]  / its last 16 bytes replaced        6  (exactly head + tail block: same first KiB)
\*   13, 14   2049  BASE[1..2049]  / byte 1025 replaced                7  (the ONE byte in neither block)
\*   15       3000  BASE                                               8  (> 2 KiB)
\*   16       3000  bytes 1401..1416 replaced: differs from 15 only in the MIDDLE (neither first nor last KiB)
\*   17       3000  last 16 bytes replaced:    differs from 15 only in the TAIL
\*   18       3000  first 16 bytes replaced:   differs from 15 only in the HEAD
\* The unmodified strings 2, 3, 5, 7, 9, 11, 13, 15 are prefixes of each other (a file that grew by appending).
\* "The same size with identical bytes" is the same id used twice (two files, or a file uploaded again).
SizeOf    == <<0, 1, 700, 700, 1024, 1024, 1025, 1025, 1500, 1500, 2048, 2048, 2049, 2049, 3000, 3000, 3000, 3000>>
AllContents == 1..18
\* size classes (reported with a failing hash clause): 0 empty, 1 < 1 KiB, 2 exactly 1 KiB, 3 1025..2047 bytes,
\* 4 exactly 2 KiB, 5 > 2 KiB
SizeClass(c) == LET n == SizeOf[c] IN
                IF n = 0 THEN 0 ELSE IF n < 1024 THEN 1 ELSE IF n = 1024 THEN 2 ELSE IF n < 2048 THEN 3
                ELSE IF n = 2048 THEN 4 ELSE 5
SizeClasses == 0..5
Group(c)    == IF c >= 15 THEN 8 ELSE (c + 1) \div 2
NGroups     == 8
\* the contents worth writing next to / over content c: the very same bytes and the ones that collide with it
Partners(c) == {d \in AllContents : Group(d) = Group(c)}
ASSUME /\ Len(SizeOf) = 18 /\ Contents \subseteq AllContents
       /\ \A c, d \in AllContents : (Group(c) = Group(d) /\ Group(c) # 1) => SizeOf[c] = SizeOf[d]

VARIABLES fs, nextOid, feed
pvars == <<fs, nextOid, feed>>

\* ---- paths -------------------------------------------------------------------------------------
FoldName(n) == IF n = 2 THEN 1 ELSE n
Norm(p)     == IF CaseSensitive THEN p ELSE [i \in 1..Len(p) |-> FoldName(p[i])]
NormName(n) == IF CaseSensitive THEN n ELSE FoldName(n)
Parent(p)   == SubSeq(p, 1, Len(p) - 1)
Leaf(p)     == p[Len(p)]
IsUnder(a, b) == Len(b) > Len(a) /\ SubSeq(b, 1, Len(a)) = a      \* b strictly below a (both normalised)
HasBad(p)   == \E i \in 1..Len(p) : p[i] \in BadNames
Paths       == UNION {[1..k -> Names] : k \in 1..MaxDepth}

\* ---- the tree ------------------------------------------------------------------------------------
RootRec == [path |-> <<>>, type |-> DIR, content |-> 0, exists |-> TRUE]
NoOid   == IF OidIsPath THEN <<0>> ELSE 0
NoPath  == <<0>>

Live(f)      == {o \in DOMAIN f : f[o].exists}
AtPath(f, p) == {o \in Live(f) : Norm(f[o].path) = Norm(p)}
PubOid(f, o) == IF OidIsPath THEN Norm(f[o].path) ELSE o
ByOid(f, x)  == IF OidIsPath THEN AtPath(f, x) ELSE {o \in Live(f) : o = x}
Kids(f, o)   == {k \in Live(f) : Len(f[k].path) = Len(f[o].path) + 1
                                 /\ Norm(Parent(f[k].path)) = Norm(f[o].path)}
Pick(S)      == CHOOSE o \in S : TRUE

ParentErrs(f, p) ==
  LET pa == AtPath(f, Parent(p))
  IN  IF pa = {} THEN {NOTFOUND} ELSE IF f[Pick(pa)].type # DIR THEN {EXISTS} ELSE {}

EvRec(f, o, ex, prior) ==
  [oid |-> PubOid(f, o), path |-> f[o].path, type |-> f[o].type, exists |-> ex, prior |-> prior]

R(errs, oid, f, n, evs) == [errs |-> errs, oid |-> oid, fs |-> f, next |-> n, evs |-> evs]
Fail(errs, f, n)        == R(errs, NoOid, f, n, <<>>)

\* ---- calls ---------------------------------------------------------------------------------------
\* create over an existing path -> exists; missing parent -> not found; parent is a file -> exists
PCreate(f, n, p, c) ==
  LET errs == (IF HasBad(p) THEN {NAMEERR} ELSE {}) \cup ParentErrs(f, p)
              \cup (IF AtPath(f, p) # {} THEN {EXISTS} ELSE {})
      f2   == Append(f, [path |-> p, type |-> FILE, content |-> c, exists |-> TRUE])
  IN  IF errs # {} THEN Fail(errs, f, n)
      ELSE R({}, PubOid(f2, n), f2, n + 1, <<EvRec(f2, n, TRUE, NoOid)>>)

\* mkdir of an existing folder returns its id (nothing changes); over a file -> exists
PMkdir(f, n, p) ==
  LET at   == AtPath(f, p)
      errs == (IF HasBad(p) THEN {NAMEERR} ELSE {}) \cup ParentErrs(f, p)
              \cup (IF at # {} /\ f[Pick(at)].type = FILE THEN {EXISTS} ELSE {})
      f2   == Append(f, [path |-> p, type |-> DIR, content |-> 0, exists |-> TRUE])
  IN  IF errs # {} THEN Fail(errs, f, n)
      ELSE IF at # {} THEN R({}, PubOid(f, Pick(at)), f, n, <<>>)
      ELSE R({}, PubOid(f2, n), f2, n + 1, <<EvRec(f2, n, TRUE, NoOid)>>)

\* upload of a missing id -> not found; to a folder -> exists
PUpload(f, n, x, c) ==
  LET s == ByOid(f, x)
  IN  IF s = {} THEN Fail({NOTFOUND}, f, n)
      ELSE LET o == Pick(s) IN
           IF f[o].type = DIR THEN Fail({EXISTS}, f, n)
           ELSE LET f2 == [f EXCEPT ![o].content = c]
                IN  R({}, PubOid(f2, o), f2, n, <<EvRec(f2, o, TRUE, NoOid)>>)

\* delete of a missing or already deleted id is a no-op; of a non-empty folder -> not empty
PDelete(f, n, x) ==
  LET s == ByOid(f, x)
  IN  IF s = {} THEN R({}, NoOid, f, n, <<>>)
      ELSE LET o == Pick(s) IN
           IF f[o].type = DIR /\ Kids(f, o) # {} THEN Fail({NOTEMPTY}, f, n)
           ELSE R({}, NoOid, [f EXCEPT ![o].exists = FALSE], n, <<EvRec(f, o, FALSE, NoOid)>>)

\* rename of a missing id -> not found; over a file or a non-empty folder or an object of the other
\* type -> exists; over an empty folder: the target folder is replaced (deleted); a folder rename moves
\* its descendants and emits ONE event for the folder; id-style: id unchanged; path-style: id = new
\* normalised path, prior = old id.  A folder moved below itself is refused (class undocumented).
PRename(f, n, x, p) ==
  LET s == ByOid(f, x)
  IN  IF s = {} THEN Fail({NOTFOUND}, f, n)
      ELSE
      LET o     == Pick(s)
          old   == f[o].path
          tset  == AtPath(f, p) \ {o}
          nest  == f[o].type = DIR /\ IsUnder(Norm(old), Norm(p))
          terrs == IF tset = {} THEN {}
                   ELSE LET t == Pick(tset) IN
                        IF f[t].type = FILE \/ f[t].type # f[o].type THEN {EXISTS}
                        ELSE IF Kids(f, t) # {} THEN {NOTEMPTY} ELSE {}
          errs  == (IF HasBad(p) THEN {NAMEERR} ELSE {}) \cup ParentErrs(f, p)
                   \cup (IF nest THEN {INVALID} ELSE {}) \cup terrs
      IN  IF errs # {} THEN Fail(errs, f, n)
          ELSE IF old = p THEN R({}, PubOid(f, o), f, n, <<>>)
          ELSE
          LET f1 == IF tset = {} THEN f ELSE [f EXCEPT ![Pick(tset)].exists = FALSE]
              f2 == [q \in DOMAIN f1 |->
                       IF q = o THEN [f1[q] EXCEPT !.path = p]
                       ELSE IF f1[q].exists /\ IsUnder(Norm(old), Norm(f1[q].path))
                            THEN [f1[q] EXCEPT !.path = p \o SubSeq(f1[q].path, Len(old) + 1, Len(f1[q].path))]
                            ELSE f1[q]]
              pr == IF OidIsPath THEN Norm(old) ELSE NoOid
          IN  R({}, PubOid(f2, o), f2, n,
                (IF tset = {} THEN <<>> ELSE <<EvRec(f, Pick(tset), FALSE, NoOid)>>)
                \o <<EvRec(f2, o, TRUE, pr)>>)

\* ---- queries -------------------------------------------------------------------------------------
NotFoundInfo == [found |-> 0, oid |-> NoOid, type |-> 0, path |-> NoPath, content |-> 0]
InfoOf(f, o) == [found |-> 1, oid |-> PubOid(f, o), type |-> f[o].type, path |-> f[o].path,
                 content |-> IF f[o].type = FILE THEN f[o].content ELSE 0]
InfoPath(f, p)   == IF AtPath(f, p) = {} THEN NotFoundInfo ELSE InfoOf(f, Pick(AtPath(f, p)))
InfoOid(f, x)    == IF ByOid(f, x) = {} THEN NotFoundInfo ELSE InfoOf(f, Pick(ByOid(f, x)))
ExistsPath(f, p) == AtPath(f, p) # {}
ExistsOid(f, x)  == ByOid(f, x) # {}
Download(f, x)   == IF ByOid(f, x) = {} THEN [err |-> NOTFOUND, content |-> 0]
                    ELSE LET o == Pick(ByOid(f, x)) IN
                         IF f[o].type = DIR THEN [err |-> EXISTS, content |-> 0]
                         ELSE [err |-> OK, content |-> f[o].content]
Listdir(f, x)    == LET s == {o \in ByOid(f, x) : f[o].type = DIR}
                    IN  IF s = {} THEN [err |-> NOTFOUND, ents |-> {}]
                        ELSE [err |-> OK,
                              ents |-> {[oid |-> PubOid(f, k), name |-> NormName(Leaf(f[k].path)), type |-> f[k].type]
                                        : k \in Kids(f, Pick(s))}]

\* ---- the hash law ------------------------------------------------------------------------------------
\* In the model the hash of a file is its content id.  For a real provider: rep is a set of <<content id, hash>>
\* pairs it reported (info_path, info_oid, listdir, hash_oid, the results of create and upload) and hd[c] is what
\* its data-hash function returns for the bytes of content c.  The law: the reported hash is hash_data of the same
\* bytes, and ids are equal <=> hashes are equal.  Each operator returns the contents that break its clause.
HashNotOfData(rep, hd) == {q[1] : q \in {u \in rep : u[2] # hd[u[1]]}}
EqualBytesDiffer(rep)  == {q[1] : q \in {u \in rep : \E v \in rep : v[1] = u[1] /\ v[2] # u[2]}}
DifferentBytesCollide(rep) == {q[1] : q \in {u \in rep : \E v \in rep : v[1] # u[1] /\ v[2] = u[2]}}
DataHashCollide(hd)    == {c \in AllContents : \E d \in AllContents : d # c /\ hd[d] = hd[c]}
HashLaw(rep, hd) == HashNotOfData(rep, hd) = {} /\ EqualBytesDiffer(rep) = {} /\ DifferentBytesCollide(rep) = {}
                    /\ DataHashCollide(hd) = {}

\* ---- the event stream read back: what a consumer that follows the documented conventions learns --
MovePrefix(x, a, b) == IF x = a \/ IsUnder(a, x) THEN b \o SubSeq(x, Len(a) + 1, Len(x)) ELSE x
RECURSIVE Replay(_, _)
Replay(es, k) ==            \* set of public ids believed to exist after the first k events
  IF k = 0 THEN {}
  ELSE LET S == Replay(es, k - 1)
           e == es[k]
       IN  IF ~e.exists THEN S \ {e.oid}
           ELSE IF OidIsPath /\ e.prior # NoOid THEN {MovePrefix(y, e.prior, e.oid) : y \in S} \cup {e.oid}
           ELSE S \cup {e.oid}

\* ---- the specification ---------------------------------------------------------------------------
PInit == fs = <<RootRec>> /\ nextOid = 2 /\ feed = <<>>

Do(r) == fs' = r.fs /\ nextOid' = r.next /\ feed' = feed \o r.evs

\* ids a caller may pass: every id ever issued (not the root), and one that was never issued
OidArgs == IF OidIsPath THEN Paths ELSE (2..(nextOid - 1)) \cup {99}

PNext ==
  \/ \E p \in Paths, c \in Contents : Do(PCreate(fs, nextOid, p, c))
  \/ \E p \in Paths : Do(PMkdir(fs, nextOid, p))
  \/ \E x \in OidArgs, c \in Contents : Do(PUpload(fs, nextOid, x, c))
  \/ \E x \in OidArgs, p \in Paths : Do(PRename(fs, nextOid, x, p))
  \/ \E x \in OidArgs : Do(PDelete(fs, nextOid, x))

PSpec == PInit /\ [][PNext]_pvars
\* failing calls and no-ops stutter, so bounding the number of reported mutations makes the state space finite
MCBound == Len(feed) < MaxMutations

\* ---- properties of the design ----------------------------------------------------------------------
TypeOK ==
  /\ nextOid = Len(fs) + 1
  /\ fs[ROOT] = RootRec
  /\ \A o \in DOMAIN fs : fs[o].type \in {FILE, DIR} /\ fs[o].exists \in BOOLEAN
                          /\ (fs[o].type = FILE <=> fs[o].content \in Contents)

\* every live object's parent is a live folder; path <-> id maps are inverse of each other
TreeWellFormed ==
  /\ \A o \in Live(fs) \ {ROOT} :
        /\ Len(fs[o].path) >= 1
        /\ \E q \in AtPath(fs, Parent(fs[o].path)) : fs[q].type = DIR
  /\ \A o \in Live(fs) : AtPath(fs, fs[o].path) = {o} /\ ByOid(fs, PubOid(fs, o)) = {o}

\* the queries agree with each other
InfoAgree ==
  \A o \in Live(fs) :
     LET i == InfoPath(fs, fs[o].path) IN
       /\ i.found = 1 /\ InfoOid(fs, i.oid) = i
       /\ ExistsPath(fs, fs[o].path) /\ ExistsOid(fs, i.oid)
       /\ (fs[o].type = FILE => Download(fs, i.oid) = [err |-> OK, content |-> fs[o].content])
       /\ (fs[o].type = DIR  => \A e \in Listdir(fs, i.oid).ents : InfoOid(fs, e.oid).found = 1
                                                               /\ InfoOid(fs, e.oid).type = e.type)
       /\ (o # ROOT => \E e \in Listdir(fs, PubOid(fs, Pick(AtPath(fs, Parent(fs[o].path))))).ents : e.oid = i.oid)

\* ids are never re-used, never change type, deleted objects stay deleted; the public id of an
\* object is constant (id-style) / is its normalised path (path-style)
IdStability ==
  [][/\ Len(fs') >= Len(fs)
     /\ \A o \in DOMAIN fs :
          /\ fs'[o].type = fs[o].type
          /\ (~fs[o].exists => fs'[o] = fs[o])
          /\ PubOid(fs', o) = IF OidIsPath THEN Norm(fs'[o].path) ELSE PubOid(fs, o)]_pvars

\* a consumer of the event stream knows exactly which ids exist
EveryMutationReported ==
  Replay(feed, Len(feed)) = {PubOid(fs, o) : o \in Live(fs) \ {ROOT}}
=============================================================================

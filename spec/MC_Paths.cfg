\* design run (quick): all laws, all 8 conventions, every (p, q) with |p| <= 2, |q| <= 1 (r empty)
CONSTANTS
  Seps = {1, 2}
  Cases = {TRUE, FALSE}
  Wins = {TRUE, FALSE}
  Wins2 = {}
  LP = 2
  LQ = 1
  LR = 0
  Ext = {}
SPECIFICATION PathsSpec
INVARIANT DesignU
INVARIANT DesignB
INVARIANT DesignT
CHECK_DEADLOCK FALSE

---------------------------- MODULE Gen_Identity ----------------------------
(* Behaviour generator for ProviderIdentity.tla: every sequence of MaxLen calls connect(j) / disconnect /     *)
(* reconnect from every initial state of the design (fresh; bound to i by an earlier session and holding the   *)
(* credentials of c).  The history variable h carries the calls, s0 the initial state; complete histories are  *)
(* printed by the invariant Emit.  The configuration checks the design properties of ProviderIdentity in the   *)
(* same run (h and s0 are history variables only).                                                             *)
EXTENDS ProviderIdentity, Sequences, Json
CONSTANT MaxLen
VARIABLES h, s0
igvars == <<idn, h, s0>>

Step(call, r) == idn' = r.st /\ h' = Append(h, call) /\ UNCHANGED s0
IGenInit == IdInit /\ s0 = idn /\ h = <<>>
IGenNext ==
  /\ Len(h) < MaxLen
  /\ \/ \E j \in Ids : Step([op |-> "connect", j |-> j], IConnect(idn, j))
     \/ Step([op |-> "disconnect", j |-> 0], IDisconnect(idn))
     \/ ICanReconnect(idn) /\ Step([op |-> "reconnect", j |-> 0], IReconnect(idn))
IGenSpec == IGenInit /\ [][IGenNext]_igvars
\* the design properties, for this specification's variables
IGenBindingStable == [][idn.bound # NOID => idn'.bound = idn.bound]_igvars
Emit == Len(h) = MaxLen => PrintT("@@" \o ToJson([init |-> [bound |-> s0.bound, creds |-> s0.creds], calls |-> h]))
=============================================================================

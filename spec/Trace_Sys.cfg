SPECIFICATION TraceSpec
POSTCONDITION Report
CHECK_DEADLOCK FALSE

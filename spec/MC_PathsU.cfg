\* design run, unary laws: all 8 conventions, every string p with |p| <= 4
CONSTANTS
  Seps = {1, 2}
  Cases = {TRUE, FALSE}
  Wins = {TRUE, FALSE}
  Wins2 = {}
  LP = 4
  LQ = 0
  LR = 0
  Ext = {}
SPECIFICATION PathsSpec
INVARIANT DesignU
CHECK_DEADLOCK FALSE

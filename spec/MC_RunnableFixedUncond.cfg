\* EXPECTED VIOLATION of NoFinalRevoked: moving the unconditional assignment shutdown = forever to the front (FixedStopOrder = 1) closes the stop-order window but a later non-final stop still revokes
CONSTANTS
  Ctls = {1}
  Owner = 1
  OpKinds = {"stopTN", "stopFW", "start"}
  Outcomes = {"did"}
  MaxCalls = 3
  MaxDo = 0
  UseUntil = FALSE
  PreStarted = TRUE
  FixedStopOrder = 1
  ResetInRun = FALSE
  BMin = 4
  BMax = 18
  BMulP = 3
  BMulQ = 2
  Sleeps = {8}
  PauseMax = FALSE
SPECIFICATION Spec
INVARIANT NoStopOrderWindow
INVARIANT NoFinalRevoked
CHECK_DEADLOCK FALSE

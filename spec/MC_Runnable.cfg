\* design run, code as found, one controller + loop: the six clauses hold outside the two recorded windows
CONSTANTS
  Ctls = {1}
  Owner = 1
  OpKinds = {"start", "stopTW", "stopTN", "stopFW", "stopFN", "wake", "wait", "waitT"}
  Outcomes = {"did", "nothing", "exc", "sstopF"}
  MaxCalls = 3
  MaxDo = 2
  UseUntil = TRUE
  PreStarted = FALSE
  FixedStopOrder = 0
  ResetInRun = FALSE
  BMin = 4
  BMax = 18
  BMulP = 3
  BMulQ = 2
  Sleeps = {8}
  PauseMax = FALSE
SPECIFICATION Spec
INVARIANT TypeOK
INVARIANT BackoffLaw
INVARIANT ClearOnSuccess
INVARIANT BackoffState
INVARIANT NoDoAfterStopReturned
INVARIANT StopCanReturn
INVARIANT DoneExactlyOnceIfFinal
INVARIANT NoRestartAfterFinalStop
INVARIANT SurvivesAnythingSeen
PROPERTY SurvivesAnything
CHECK_DEADLOCK FALSE

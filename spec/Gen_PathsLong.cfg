CONSTANTS
  MinLen = 8
  MaxLen = 40
  MaxEdits = 3
SPECIFICATION LongSpec
INVARIANT Emit
CHECK_DEADLOCK FALSE

----------------------------- MODULE Gen_Conflict -----------------------------
(***************************************************************************)
(* Generator of the C05 family: one conflict at one path, every conflict     *)
(* shape x content pair x resolver behaviour x interleaving of the two user   *)
(* operations with intake tokens x every post-conflict schedule up to length  *)
(* MaxPost over {EL, ER, S}.  No behaviour, just the finite product, emitted  *)
(* as JSON (one initial state per element).                                   *)
(***************************************************************************)
EXTENDS Naturals, Sequences, TLC, Json
CONSTANTS MaxPost, Mids
VARIABLE c

Shapes   == {"create", "edit"}
\* content pairs <<cidL, cidR>>: different / equal / empty vs non-empty (5 = empty bytes) / both large (ids mod 5 in {3,4})
Pairs    == { <<20, 21>>, <<22, 22>>, <<5, 21>>, <<21, 5>>, <<23, 24>> }
Answers  == { <<"pick", 0, 1>>, <<"pick", 0, 0>>, <<"pick", 1, 1>>, <<"pick", 1, 0>>,
              <<"merge", 9, 0>>, <<"merge", 9, 1>>, <<"none", 9, 1>>, <<"raise", 9, 1>>, <<"garbage", 9, 1>> }
Tok      == {"EL", "ER", "S"}
RECURSIVE SeqsUpTo(_)
SeqsUpTo(n) == IF n = 0 THEN {<<>>} ELSE SeqsUpTo(n - 1) \cup {Append(s, t) : s \in {x \in SeqsUpTo(n - 1) : Len(x) = n - 1}, t \in Tok}
Orders   == {0, 1}        \* which side acts first

Init == c \in [shape : Shapes, pair : Pairs, answer : Answers, mid : Mids, post : SeqsUpTo(MaxPost), first : Orders]
Next == UNCHANGED c
Spec == Init /\ [][Next]_c
Emit == PrintT("@@" \o ToJson(<<c>>))
=============================================================================

\* design-level run of HCache.tla, case-insensitive provider with one case variant ("A" folds to "a")
CONSTANTS
  Names = {"a", "b", "A"}
  Ids = {1, 2, 3}
  Depth = 2
  CaseFold = TRUE
  Metas = {0}
SPECIFICATION HSpec
INVARIANT TypeOK
INVARIANT Coherent
INVARIANT RoundTrip
INVARIANT StepProps
CHECK_DEADLOCK FALSE

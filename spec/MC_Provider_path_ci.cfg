\* exhaustive design check of ProviderModel.tla: path-style ids, case-insensitive names; names a, A, b; paths of depth <= 2;
\* one small and one > 2 KiB content; every call sequence with up to MaxMutations reported mutations
CONSTANTS
  Names = {1, 2, 3}
  MaxDepth = 2
  Contents = {3, 15}
  OidIsPath = TRUE
  CaseSensitive = FALSE
  BadNames = {}
  MaxMutations = 3
SPECIFICATION PSpec
CONSTRAINT MCBound
INVARIANT TypeOK
INVARIANT TreeWellFormed
INVARIANT InfoAgree
INVARIANT EveryMutationReported
PROPERTY IdStability
CHECK_DEADLOCK FALSE

-------------------------- MODULE ProviderIdentity --------------------------
(***************************************************************************)
(* C16, the identity part of the provider contract (ProviderModel.tla is   *)
(* the tree part; the two are independent of each other).                  *)
(*                                                                          *)
(* A provider is UNBOUND until its first successful login and from then on *)
(* BOUND to the identity (account) of that login: connection_id "must      *)
(* remain constant between logins".  idn = [bound, conn, creds]:           *)
(*   bound  NOID or the identity the provider is bound to,                 *)
(*   conn   connected or not,                                              *)
(*   creds  the identity of the credentials the provider holds (the ones   *)
(*          passed to the last connect / set_creds; reconnect uses them).  *)
(* connect(credentials of j) succeeds iff the provider is unbound or bound *)
(* to j, and binds; otherwise it is REFUSED: the binding stays what it was *)
(* and the provider is not connected (the reference drops the owner's      *)
(* session, as the code does; the trace specification also accepts a       *)
(* provider that keeps it).  disconnect keeps the binding.  reconnect is a *)
(* no-op when connected, else connect with the credentials held.           *)
(* Every call is a pure operator returning [ok, st]; Trace_Provider.tla    *)
(* re-uses them on recorded calls.                                          *)
(***************************************************************************)
EXTENDS Naturals, TLC

CONSTANT Ids            \* the identities (small positive integers; the JSON bridge maps them to accounts)
VARIABLE idn

NOID == 0
Fresh == [bound |-> NOID, conn |-> FALSE, creds |-> NOID]
\* a fresh provider, or one that an earlier session has bound to i and left disconnected, holding credentials of c
IdnInits == {Fresh} \cup {[bound |-> i, conn |-> FALSE, creds |-> c] : i \in Ids, c \in Ids}

IR(ok, st) == [ok |-> ok, st |-> st]
IAccepts(s, j)   == s.bound = NOID \/ s.bound = j
IConnect(s, j)   == IF IAccepts(s, j) THEN IR(TRUE, [bound |-> j, conn |-> TRUE, creds |-> j])
                    ELSE IR(FALSE, [s EXCEPT !.conn = FALSE, !.creds = j])
IDisconnect(s)   == IR(TRUE, [s EXCEPT !.conn = FALSE])
IReconnect(s)    == IF s.conn THEN IR(TRUE, s) ELSE IConnect(s, s.creds)
ICanReconnect(s) == s.conn \/ s.creds # NOID      \* a provider that never saw credentials has nothing to reconnect with

IdInit == idn \in IdnInits
IdNext == \/ \E j \in Ids : idn' = IConnect(idn, j).st
          \/ idn' = IDisconnect(idn).st
          \/ ICanReconnect(idn) /\ idn' = IReconnect(idn).st
IdSpec == IdInit /\ [][IdNext]_idn

\* ---- properties of the design ----------------------------------------------------------------------
IdTypeOK == idn.bound \in {NOID} \cup Ids /\ idn.conn \in BOOLEAN /\ idn.creds \in {NOID} \cup Ids
\* whoever is connected is connected as the identity the provider is bound to
ConnectedAsBound == idn.conn => (idn.bound # NOID /\ idn.creds = idn.bound)
\* a foreign identity is refused in EVERY state (not only the first time), and the refusal changes no binding
ForeignRefused ==
  \A j \in Ids : (idn.bound # NOID /\ j # idn.bound)
                    => LET r == IConnect(idn, j) IN ~r.ok /\ ~r.st.conn /\ r.st.bound = idn.bound
\* the owner is accepted in every state, whatever was refused before
OwnerAccepted ==
  idn.bound # NOID => LET r == IConnect(idn, idn.bound) IN r.ok /\ r.st.conn /\ r.st.bound = idn.bound
\* once bound, the binding never changes
BindingStable == [][idn.bound # NOID => idn'.bound = idn.bound]_idn
=============================================================================

-------------------------------- MODULE Tree --------------------------------
(***************************************************************************)
(* File trees as used by every system-level module.  A tree is a function   *)
(* whose DOMAIN is the set of existing paths; a path is a sequence of name   *)
(* codes (naturals); a cell is DIR (0) for a folder or a content id (>= 1).  *)
(* The account root <<>> is implicit and always a folder.  The operators are *)
(* the reference semantics of the provider contract (ProviderModel, C16)     *)
(* restricted to what users and the engine do: create / write(upload) /      *)
(* rename (moves the subtree, may replace an empty folder) / delete (files   *)
(* and empty folders) / mkdir.                                               *)
(* NOTE: these operators are used inside actions, where TLC explores BOTH    *)
(* sides of a disjunction; a disjunct that is only well defined when the     *)
(* other one is false is therefore written IF-THEN-ELSE.                     *)
(***************************************************************************)
EXTENDS Naturals, Sequences, FiniteSets

DIR == 0
ConflictedName(n) == n >= 100           \* name codes of '.conflicted' variants (assigned by the recorder)

Parent(p)       == SubSeq(p, 1, Len(p) - 1)
IsPrefix(p, q)  == Len(p) <= Len(q) /\ SubSeq(q, 1, Len(p)) = p
Rebase(x, p, q) == q \o SubSeq(x, Len(p) + 1, Len(x))      \* x under p, moved under q
Ancestors(p)    == {SubSeq(p, 1, k) : k \in 1..(Len(p) - 1)}

Has(t, p)    == p \in DOMAIN t
IsDir(t, p)  == IF Len(p) = 0 THEN TRUE ELSE (Has(t, p) /\ t[p] = DIR)
IsFile(t, p) == Has(t, p) /\ t[p] # DIR
Under(t, p)  == {q \in DOMAIN t : IsPrefix(p, q)}            \* p itself and its descendants
Kids(t, p)   == Under(t, p) \ {p}

EmptyTree == <<>>
Put(t, p, c) == [q \in DOMAIN t \cup {p} |-> IF q = p THEN c ELSE t[q]]
Drop(t, ps)  == [q \in DOMAIN t \ ps |-> t[q]]

CanCreate(t, p)    == Len(p) > 0 /\ ~Has(t, p) /\ IsDir(t, Parent(p))
Create(t, p, c)    == Put(t, p, c)
CanWrite(t, p)     == IsFile(t, p)
Write(t, p, c)     == Put(t, p, c)
CanDelete(t, p)    == Has(t, p) /\ Kids(t, p) = {}
Delete(t, p)       == Drop(t, {p})
CanMkdir(t, p)     == CanCreate(t, p)
Mkdir(t, p)        == Put(t, p, DIR)
CanRename(t, p, q) ==
  /\ Has(t, p) /\ Len(q) > 0 /\ p # q /\ ~IsPrefix(p, q)
  /\ IsDir(t, Parent(q))
  /\ (IF ~Has(t, q) THEN TRUE ELSE (t[q] = DIR /\ t[p] = DIR /\ Kids(t, q) = {}))
Rename(t, p, q) ==
  LET moved == Under(t, p)
      rest  == (DOMAIN t \ moved) \ {q}
      dom   == rest \cup {Rebase(x, p, q) : x \in moved}
  IN [y \in dom |-> IF y \in rest THEN t[y] ELSE t[Rebase(y, q, p)]]

\* ---- views ---------------------------------------------------------------------------------
Cells(t)        == {t[p] : p \in DOMAIN t}
Copies(t, v)    == Cardinality({p \in DOMAIN t : t[p] = v})
HasConflicted(p) == \E k \in 1..Len(p) : ConflictedName(p[k])
ConflictedPaths(t) == {p \in DOMAIN t : HasConflicted(p)}
StripConflicted(t) == Drop(t, ConflictedPaths(t))
WellFormed(t)   == \A p \in DOMAIN t : Len(p) > 0 /\ IsDir(t, Parent(p))
Diff(t1, t2)    == {p \in DOMAIN t1 \cup DOMAIN t2 :
                      ~(Has(t1, p) /\ Has(t2, p) /\ t1[p] = t2[p])}

\* from the JSON projection: a sequence of <<path, cell>> pairs
ToTree(s) == [p \in {s[i][1] : i \in DOMAIN s} |-> (LET i == CHOOSE j \in DOMAIN s : s[j][1] = p IN s[i][2])]
=============================================================================

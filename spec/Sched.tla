-------------------------------- MODULE Sched --------------------------------
(***************************************************************************)
(* C17, selection rule.  A configuration is a set of pending entries, each    *)
(* with a change time per side (0 = that side has no pending change), and a    *)
(* priority; `age` is the ageing interval and `now` the clock.  An entry is    *)
(* ELIGIBLE when some side's change is at least `age` old or its priority is   *)
(* negative.  The engine must pick an eligible entry with the least            *)
(* (priority, time of latest change) among the eligible ones, or nothing when  *)
(* none is eligible.  Priorities 1..4 stand for -1, 0, 1, 2 (cfg files cannot  *)
(* hold negative numbers).                                                     *)
(***************************************************************************)
EXTENDS Naturals, Sequences, FiniteSets, TLC, Json
CONSTANTS MaxEnts, Times, Prios, Ages, Nows
VARIABLE c

Neg(p) == p = 1
Max2(a, b) == IF a >= b THEN a ELSE b
Pending(e) == e.ch[1] # 0 \/ e.ch[2] # 0
Eligible(e, age, now) ==
  \/ (e.ch[1] # 0 /\ e.ch[1] + age <= now)
  \/ (e.ch[2] # 0 /\ e.ch[2] + age <= now)
  \/ Neg(e.prio)
Key(e) == <<e.prio, Max2(e.ch[1], e.ch[2])>>
KeyLess(a, b) == a[1] < b[1] \/ (a[1] = b[1] /\ a[2] < b[2])

\* the laws, stated on an answer `got` (index of the chosen entry, 0 = nothing)
ChosenIsEligible(cf) == cf.got # 0 => Eligible(cf.ents[cf.got], cf.age, cf.now)
NothingOnlyIfNoneEligible(cf) == cf.got = 0 => \A i \in 1..Len(cf.ents) : ~Eligible(cf.ents[i], cf.age, cf.now)
NoBetterEligible(cf) ==
  cf.got # 0 => \A i \in 1..Len(cf.ents) :
                   Eligible(cf.ents[i], cf.age, cf.now) => ~KeyLess(Key(cf.ents[i]), Key(cf.ents[cf.got]))
ZeroAgeAllEligible(cf) == cf.age = 0 => \A i \in 1..Len(cf.ents) : Eligible(cf.ents[i], 0, cf.now)

Ent == [ch : {ct \in Times \X Times : ct[1] # 0 \/ ct[2] # 0}, prio : Prios]
Init == c \in [ents : UNION {[1..n -> Ent] : n \in 1..MaxEnts}, age : Ages, now : Nows]
Next == UNCHANGED c
Spec == Init /\ [][Next]_c
\* change times lie in the past
Sane == \A i \in 1..Len(c.ents) : c.ents[i].ch[1] <= c.now /\ c.ents[i].ch[2] <= c.now
Emit == Sane => PrintT("@@" \o ToJson(<<c>>))
=============================================================================

-------------------------------- MODULE Codec --------------------------------
(***************************************************************************)
(* C08, codec part.  The product of shape classes of every serialised field  *)
(* of a sync entry, and the rows older releases wrote.  One element of the    *)
(* product per initial state, emitted as JSON; the driver instantiates         *)
(* concrete values per class, runs serialize -> deserialize on the real        *)
(* SyncEntry and records the sync-relevant fields before and after as          *)
(* numbered tokens; RoundTrip / LegacyLoads judge the recording.               *)
(*  hash classes : 0 none 1 bytes 2 non-utf8 bytes 3 str 4 int 5 tuple 6 nested tuple 7 dict *)
(*  path classes : 0 none 1 ascii 2 unicode 3 astral plane 4 with spaces/dots                *)
(*  exists       : 0 unknown 1 exists 2 trashed 3 missing 4 likely-trashed 5 corrupt(saved s) *)
(*  ignored      : 0 none 1 discarded 2 conflict 3 temp rename 4 irrelevant                  *)
(*  legacy       : 0 current format | 1 exists=True 2 exists=False 3 exists=None              *)
(*                 4 'discarded' key 5 'conflicted' key 6 ignored="trashed"                   *)
(*                 7 no size/mtime/_saved_exists/priority keys                                *)
(***************************************************************************)
EXTENDS Naturals, Sequences, TLC, Json
VARIABLE c
Cases == [hash : 0..7, shash : {0, 1, 5}, path : 0..4, spath : {0, 2}, ex : 0..5, saved : 0..4, ig : 0..4, changed : {0, 1},
          legacy : {0}]
         \cup [hash : {1}, shash : {1}, path : {1}, spath : {1}, ex : {1}, saved : {0}, ig : {0}, changed : {0, 1}, legacy : 1..7]
Relevant(x) == x.ex = 5 \/ x.saved = 0           \* the saved existence only matters under the corrupt marker
Init == c \in {x \in Cases : Relevant(x)}
Next == UNCHANGED c
Spec == Init /\ [][Next]_c
Emit == PrintT("@@" \o ToJson(<<c>>))

\* what a legacy row must load as: <<exists, ignored>>
LegacyExpect(k) == CASE k = 1 -> <<1, 0>> [] k = 2 -> <<2, 0>> [] k = 3 -> <<0, 0>>
                     [] k = 4 -> <<1, 1>> [] k = 5 -> <<1, 2>> [] k = 6 -> <<1, 1>> [] k = 7 -> <<1, 0>> [] OTHER -> <<1, 0>>
=============================================================================

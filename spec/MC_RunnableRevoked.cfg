\* EXPECTED VIOLATION of NoFinalRevoked: code as found, a stop(forever=False) after/while a final stop assigns shutdown = False
CONSTANTS
  Ctls = {1}
  Owner = 1
  OpKinds = {"stopTN", "stopFW", "start"}
  Outcomes = {"did"}
  MaxCalls = 3
  MaxDo = 0
  UseUntil = FALSE
  PreStarted = TRUE
  FixedStopOrder = 0
  ResetInRun = FALSE
  BMin = 4
  BMax = 18
  BMulP = 3
  BMulQ = 2
  Sleeps = {8}
  PauseMax = FALSE
SPECIFICATION Spec
INVARIANT NoFinalRevoked
CHECK_DEADLOCK FALSE

---------------------------- MODULE Gen_PathsLong ----------------------------
(* Long random paths for C13 (run with -simulate): p is a random string of np characters; q is p after e1 random *)
(* edits, r is q after e2 more edits - so that the equality, subpath and transitivity laws meet related long      *)
(* paths, not only unrelated ones.  Edit mode 0: spelling variants (flip the case of a letter, use the other      *)
(* separator, double a separator, add a trailing separator); mode 1: replace / insert / delete any character.     *)
(* One JSON line [p, q, r, '/' + q, '\' + r] per behaviour.                                                        *)
EXTENDS Naturals, Sequences, Json, TLC
CONSTANTS MinLen, MaxLen, MaxEdits
VARIABLES p, q, r, np, e1, e2, m1, m2, phase, pos
lvars == <<p, q, r, np, e1, e2, m1, m2, phase, pos>>
Chars == 1..12

LongInit ==
  /\ np \in MinLen..MaxLen /\ e1 \in 0..MaxEdits /\ e2 \in 0..MaxEdits /\ m1 \in {0, 1} /\ m2 \in {0, 1}
  /\ p = <<>> /\ q = <<>> /\ r = <<>> /\ phase = 0 /\ pos = 0

Ins(s, i, ch) == SubSeq(s, 1, i - 1) \o <<ch>> \o SubSeq(s, i, Len(s))
Variants(s) ==
  {[s EXCEPT ![i] = 7 - s[i]] : i \in {j \in 1..Len(s) : s[j] \in {3, 4}}}           \* a <-> A
  \cup {[s EXCEPT ![i] = 16 - s[i]] : i \in {j \in 1..Len(s) : s[j] \in {7, 9}}}     \* e-acute <-> E-acute
  \cup {SubSeq(s, 1, i - 1) \o <<11, 12>> \o SubSeq(s, i + 1, Len(s)) : i \in {j \in 1..Len(s) : s[j] = 10}}   \* U+0130 -> its lower()
  \cup {[s EXCEPT ![i] = 3 - s[i]] : i \in {j \in 1..Len(s) : s[j] \in {1, 2}}}      \* / <-> \
  \cup {Ins(s, i, s[i]) : i \in {j \in 1..Len(s) : s[j] \in {1, 2}}}                 \* doubled separator
  \cup {Append(s, 1), Append(s, 2)}                                                  \* trailing separator
\* an arbitrary edit is made in two steps (choose the position, then what to do there) to keep the branching small
EditsAt(s, i) ==
  {Ins(s, i, ch) : ch \in Chars}
  \cup (IF i <= Len(s) THEN {[s EXCEPT ![i] = ch] : ch \in Chars} \cup {SubSeq(s, 1, i - 1) \o SubSeq(s, i + 1, Len(s))}
        ELSE {})
EditStep(s, s2, m) ==
  IF m = 0 THEN s2 \in Variants(s) /\ pos' = 0
  ELSE IF pos = 0 THEN pos' \in 1..(Len(s) + 1) /\ s2 = s
  ELSE s2 \in EditsAt(s, pos) /\ pos' = 0
Done(m) == m = 0 \/ pos' = 0            \* the edit is complete after this step

LongNext ==
  \/ phase = 0 /\ Len(p) < np /\ \E ch \in Chars : p' = Append(p, ch) /\ UNCHANGED <<q, r, np, e1, e2, m1, m2, phase, pos>>
  \/ phase = 0 /\ Len(p) = np /\ phase' = 1 /\ q' = p /\ UNCHANGED <<p, r, np, e1, e2, m1, m2, pos>>
  \/ phase = 1 /\ e1 > 0 /\ EditStep(q, q', m1) /\ e1' = (IF Done(m1) THEN e1 - 1 ELSE e1) /\ UNCHANGED <<p, r, np, e2, m1, m2, phase>>
  \/ phase = 1 /\ e1 = 0 /\ phase' = 2 /\ r' = q /\ UNCHANGED <<p, q, np, e1, e2, m1, m2, pos>>
  \/ phase = 2 /\ e2 > 0 /\ EditStep(r, r', m2) /\ e2' = (IF Done(m2) THEN e2 - 1 ELSE e2) /\ UNCHANGED <<p, q, np, e1, m1, m2, phase>>
  \/ phase = 2 /\ e2 = 0 /\ phase' = 3 /\ UNCHANGED <<p, q, r, np, e1, e2, m1, m2, pos>>
LongSpec == LongInit /\ [][LongNext]_lvars
\* ... and two long folders AS SPELLED (absolute: a separator in front of q and of r, whose edits in mode 0 are spelling variants)
Emit == phase = 3 => PrintT("@@" \o ToJson(<<p, q, r, <<1>> \o q, <<2>> \o r>>))
=============================================================================

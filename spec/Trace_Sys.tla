----------------------------- MODULE Trace_Sys -----------------------------
(***************************************************************************)
(* Trace validation for the system-level properties (C01-C04, C12 and the   *)
(* clauses other modules add).  One recorded event of the real engine run   *)
(* per line (vh/sysdrv.py): user operations, engine-issued provider calls   *)
(* with arguments and result, step boundaries with the observed trees,      *)
(* quiet reports.  Every line is a step of Sys.tla; every property clause    *)
(* is evaluated BY TLC at the step it talks about.  Acceptance is total:     *)
(* a false clause is recorded in register 1 as <<tid, line, clause, tags>>   *)
(* and the trace goes on; a disagreement between the reference tree          *)
(* semantics and the observed trees is a NONCONFORMANCE (register 3), after   *)
(* which the model is re-synchronised with the observation.                   *)
(***************************************************************************)
EXTENDS Sys, StateInv, Json, IOUtils

VARIABLES tid, l, phase, lastUser, corrupt,
          base0,   \* the synchronised base tree of the trace
          kase,    \* declared shape of the behaviour (from the generator), [kind |-> "none"] when absent
          nres,    \* number of resolver calls so far
          pfault,  \* C10: kind of an injected provider fault not yet reported to the application (0 = none)
          notif,   \* C17: <<side, object>> -> virtual time (ms) the engine was last notified of a change to it
          cur,     \* C17: the entry being synchronised in the current sync step: [oids, neg]
          aging,   \* C17: configured ageing interval (ms)
          walked,  \* C06: a restart without a usable cursor happened (full walk: deletions are not promised)
          xf,      \* C14: bag of effective engine transfers of this run: <<side, op, path, cid>> -> count
          sm,      \* C20: on-demand bookkeeping [req: requested remote files, made: files users created/edited locally, un: path being un-requested or <<>>]
          runA     \* C14: summary of the reference run of a paired trace: [quiet, xf, conf], or [quiet |-> <<>>] when none
tvars == <<tr, written, killed, dropped, merged, expect, exOK, chg, anc, origin, win, tags,
           tid, l, phase, lastUser, corrupt, base0, kase, nres, pfault, notif, cur, aging, walked, xf, runA, sm>>
Aux == <<base0, kase, nres, pfault, notif, cur, aging, walked, xf, runA, sm>>
Sched == <<notif, cur, aging, walked, xf, runA, sm>>

Traces == JsonDeserialize(IOEnv.TRACE_FILE)
Tr == Traces[tid]
Ev == Tr[l]

Viol(clause)     == TLCSet(1, TLCGet(1) \cup {<<tid, l, clause, tags>>})
Check(c, clause) == IF c THEN TRUE ELSE Viol(clause)
NonConf(what)    == TLCSet(3, TLCGet(3) \cup {<<tid, l, what>>})
Conform(c, what) == IF c THEN TRUE ELSE NonConf(what)

Obs(post) == <<ToTree(post[1]), ToTree(post[2])>>
OK == 1

Advance ==
  /\ l' = l + 1 /\ UNCHANGED tid
  /\ IF l = Len(Tr) THEN TLCSet(2, TLCGet(2) + 1) ELSE TRUE

LedgerFrame == UNCHANGED <<written, killed, dropped, merged, expect, exOK, chg, anc, origin, win, tags>>

TraceInit ==
  /\ tid \in 1..Len(Traces) /\ l = 1
  /\ tr = <<EmptyTree, EmptyTree>>
  /\ written = {} /\ killed = {} /\ dropped = {} /\ merged = {}
  /\ expect = EmptyTree /\ exOK = TRUE
  /\ chg = <<{}, {}>> /\ anc = <<{}, {}>> /\ origin = 0
  /\ win = EmptyWin /\ tags = {}
  /\ phase = "run" /\ lastUser = <<EmptyTree, EmptyTree>> /\ corrupt = {}
  /\ base0 = EmptyTree /\ kase = [kind |-> "none"] /\ nres = 0 /\ pfault = 0
  /\ notif = <<>> /\ cur = [oids |-> <<0, 0>>, neg |-> 0] /\ aging = 0 /\ walked = FALSE
  /\ xf = <<>> /\ runA = [quiet |-> <<>>] /\ sm = [req |-> {}, made |-> {}, un |-> <<>>, pre |-> <<EmptyTree, EmptyTree>>]

\* ---- the synchronised starting point ----------------------------------------------------------
TBase ==
  /\ Ev.ev = "Base"
  /\ LET o == Obs(Ev.post) IN
       /\ tr' = o /\ lastUser' = o /\ expect' = o[1]
       /\ written' = (Cells(o[1]) \cup Cells(o[2])) \ {DIR}
       /\ base0' = o[1]
  /\ aging' = Ev.aging_ms
  /\ UNCHANGED <<killed, dropped, merged, exOK, chg, anc, origin, win, tags, phase, corrupt, kase, nres, pfault, notif, cur, walked, xf, runA, sm>>
  /\ Advance

\* ---- a user operation (environment) ---------------------------------------------------------------
\* threaded runs (C15): user operations are listed without an observation; they are applied to the model trees
TUserModel ==
  /\ Ev.ev = "UserOp" /\ "post" \notin DOMAIN Ev
  /\ LET s  == Ev.side + 1
         op == [k |-> Ev.op, p |-> Ev.path, q |-> Ev.dst, c |-> Ev.cid]
     IN IF Applies(tr[s], op)
          THEN /\ UserEffect(s, op, Apply(tr[s], op))
               /\ tr' = [tr EXCEPT ![s] = Apply(tr[s], op)]
          ELSE /\ UNCHANGED <<written, killed, expect, exOK, chg, anc, origin, tr>>
               /\ TagEffect(s, op, FALSE, chg, anc, tr[s])
  /\ UNCHANGED <<dropped, merged, phase, corrupt, lastUser>> /\ UNCHANGED Aux
  /\ Advance
\* C15: every mutation of the shared sync state happens while the mutating thread holds the state lock
TPrim ==
  /\ Ev.ev = "Prim"
  \* a mutation by a thread that does not own the state lock, or an atomic step (entry synchronisation, event application,
  \* on-demand request) that let go of the lock / took it twice: two critical sections where the property demands one
  /\ Check(Ev.owned = 1, IF Ev.key \in {"lock-released-mid-step", "lock-taken-again-mid-step"} THEN "StepAtomic" ELSE "LockOwned")
  /\ UNCHANGED <<tr, phase, lastUser, corrupt>> /\ LedgerFrame /\ UNCHANGED Aux
  /\ Advance

TUser ==
  /\ Ev.ev = "UserOp" /\ "post" \in DOMAIN Ev
  /\ LET s  == Ev.side + 1
         op == [k |-> Ev.op, p |-> Ev.path, q |-> Ev.dst, c |-> Ev.cid]
         o  == Obs(Ev.post)
         ap == Applies(tr[s], op)
     IN /\ Conform((Ev.ok = 1) = ap, "UserOpApplicability")
        /\ Conform(IF Ev.ok = 1 /\ ap THEN Apply(tr[s], op) = o[s] ELSE tr[s] = o[s], "UserOpEffect")
        /\ Conform(tr[Other(s)] = o[Other(s)], "UserOpOtherSide")
        /\ IF Ev.ok = 1 /\ ap
             THEN UserEffect(s, op, o[s])
             ELSE /\ UNCHANGED <<written, killed, expect, exOK, chg, anc, origin>>
                  /\ TagEffect(s, op, FALSE, chg, anc, tr[s])
        /\ tr' = o
        /\ lastUser' = [lastUser EXCEPT ![s] = o[s]]
        /\ sm' = IF s = 1 /\ Ev.ok = 1 /\ Ev.op \in {"create", "write"} THEN [sm EXCEPT !.made = @ \cup {Ev.path}] ELSE sm
  /\ UNCHANGED <<dropped, merged, phase, corrupt, base0, kase, nres, pfault, notif, cur, aging, walked, xf, runA>>
  /\ Advance

\* ---- an engine-issued provider call: the contract guards are checked here ---------------------------
\* C17: nothing is propagated earlier than the ageing interval after the engine was last notified of a change to that
\* object (on either side), unless its priority is negative
NotifAt(s, o) == IF <<s, o>> \in DOMAIN notif THEN notif[<<s, o>>] ELSE 0
LastNotified == LET a == NotifAt(1, cur.oids[1])
                    b == NotifAt(2, cur.oids[2])
                IN IF a >= b THEN a ELSE b
Declined(p) == kase.kind = "c12" /\ Len(kase.declined) > 0 /\ IsPrefix(kase.declined, p)
ECallChecks(s) ==
  LET p == Ev.path
      c == Ev.cid
  IN /\ Check(phase # "after", "NoEcho")
     /\ Check(cur.neg = 1 \/ Ev.now - LastNotified >= aging, "Aged")
     /\ IF kase.kind = "c20"
          THEN /\ Check(~(s = 1 /\ Ev.op \in {"create", "upload"}) \/ p \in sm.req \cup sm.made \/ p[Len(p)] \in SeqSet(kase.auto),
                        "DownloadOnlyOnDemand")
               /\ Check(~(s = 2 /\ Ev.op = "delete" /\ Len(sm.un) > 0 /\ p = sm.un), "UnsyncKeepsRemote")
          ELSE TRUE
     /\ Check(~Declined(p) /\ ~(Ev.op = "rename" /\ Declined(Ev.src)), "DeclinedLeftAlone")
     /\ CASE Ev.op = "create" ->
               /\ Check(InsideOK(p), "InsideRoot")
               /\ Check(ContentOK(c), "NoInventedContent")
          [] Ev.op = "upload" ->
               /\ Check(InsideOK(p), "InsideRoot")
               /\ Check(ContentOK(c), "NoInventedContent")
               /\ Check(LastCopyOK(tr, s, p, corrupt), "LastCopy")
               /\ Check(IF Has(tr[s], p) THEN tr[s][p] # c ELSE TRUE, "Productive")
          [] Ev.op = "rename" ->
               /\ Check(InsideOK(p) /\ InsideOK(Ev.src), "InsideRoot")
               /\ Check(Ev.src # p, "Productive")
          [] Ev.op = "mkdir" -> Check(InsideOK(p) \/ p = <<ROOT>>, "InsideRoot")
          [] Ev.op = "delete" ->
               /\ Check(InsideOK(p), "InsideRoot")
               /\ Check(LastCopyOK(tr, s, p, corrupt), "LastCopy")
ECallEffect(s) ==
  LET p == Ev.path
      t == tr[s]
  IN CASE Ev.op = "create" -> IF CanCreate(t, p) THEN Create(t, p, Ev.cid) ELSE t
       [] Ev.op = "upload" -> IF CanWrite(t, p) THEN Write(t, p, Ev.cid) ELSE t
       [] Ev.op = "rename" -> IF CanRename(t, Ev.src, p) THEN Rename(t, Ev.src, p) ELSE t
       [] Ev.op = "mkdir"  -> IF CanMkdir(t, p) THEN Mkdir(t, p) ELSE t
       [] Ev.op = "delete" -> IF CanDelete(t, p) THEN Delete(t, p) ELSE t
ECallApplicable(s) ==
  LET p == Ev.path
      t == tr[s]
  IN CASE Ev.op = "create" -> CanCreate(t, p)
       [] Ev.op = "upload" -> CanWrite(t, p)
       [] Ev.op = "rename" -> CanRename(t, Ev.src, p)
       [] Ev.op = "mkdir"  -> CanMkdir(t, p)
       [] Ev.op = "delete" -> CanDelete(t, p)
TECall ==
  /\ Ev.ev = "ECall"
  /\ LET s == Ev.side + 1 IN
       IF Ev.res = OK /\ Ev.noop = 0
         THEN /\ ECallChecks(s)
              /\ Conform(ECallApplicable(s), "ECallApplicability")
              /\ tr' = [tr EXCEPT ![s] = ECallEffect(s)]
         ELSE tr' = tr
  /\ xf' = IF Ev.res = OK /\ Ev.noop = 0 /\ Ev.op \in {"create", "upload", "delete", "rename"}
             THEN LET k == <<Ev.side, Ev.op, Ev.path, Ev.cid>> IN
                  [x \in DOMAIN xf \cup {k} |-> IF x = k THEN (IF k \in DOMAIN xf THEN xf[k] + 1 ELSE 1) ELSE xf[x]]
             ELSE xf
  /\ LedgerFrame /\ UNCHANGED <<phase, lastUser, corrupt, base0, kase, nres, pfault, notif, cur, aging, walked, runA, sm>>
  /\ Advance

\* ---- C14: paired traces - the same history and sync schedule with prompt in-order delivery (run A) and with a
\* mangled event stream (run B).  "SecondRun" closes run A and re-initialises; "Compare" judges B against A.
TSecondRun ==
  /\ Ev.ev = "SecondRun"
  /\ runA' = [quiet |-> tr, xf |-> xf, conf |-> ConflictedPaths(tr[1]) \cup ConflictedPaths(tr[2])]
  /\ tr' = <<EmptyTree, EmptyTree>>
  /\ written' = {} /\ killed' = {} /\ dropped' = {} /\ merged' = {}
  /\ expect' = EmptyTree /\ exOK' = TRUE
  /\ chg' = <<{}, {}>> /\ anc' = <<{}, {}>> /\ origin' = 0
  /\ win' = EmptyWin /\ tags' = tags
  /\ phase' = "run" /\ lastUser' = <<EmptyTree, EmptyTree>> /\ corrupt' = {}
  /\ base0' = EmptyTree /\ nres' = 0 /\ pfault' = 0
  /\ notif' = <<>> /\ cur' = [oids |-> <<0, 0>>, neg |-> 0] /\ xf' = <<>>
  /\ UNCHANGED <<kase, aging, walked, sm>>
  /\ Advance
TCompare ==
  /\ Ev.ev = "Compare"
  /\ Check(tr = runA.quiet, "SameQuietTrees")
  /\ Check(\A k \in DOMAIN xf : k \in DOMAIN runA.xf /\ xf[k] <= runA.xf[k], "NoSpuriousTransfers")
  /\ Check((ConflictedPaths(tr[1]) \cup ConflictedPaths(tr[2])) \subseteq runA.conf, "NoExtraConflicted")
  /\ UNCHANGED <<tr, phase, lastUser, corrupt>> /\ LedgerFrame /\ UNCHANGED Aux
  /\ Advance

\* ---- step boundaries ------------------------------------------------------------------------------------
\* C03: while only one side has ever been changed by users, the engine makes no effective change there
OriginClause(o) == IF origin \in {1, 2} THEN InsideOf(o[origin]) = InsideOf(lastUser[origin])
                   ELSE IF origin = 0 THEN o = lastUser ELSE TRUE
\* C10: temporary / disconnected / out-of-space conditions raised by a provider are reported to the application by a
\* notification of the matching kind before the service step that met them ends
R_TEMP == 4   R_DISC == 5   R_TOKEN == 6   R_SPACE == 7
NoteFor(kind) == CASE kind = R_TEMP -> "temporary_error" [] kind = R_DISC -> "disconnected_error"
                   [] kind = R_SPACE -> "out_of_space_error" [] OTHER -> "?"
TFault ==
  /\ Ev.ev = "Fault"
  /\ pfault' = IF Ev.kind \in {R_TEMP, R_DISC, R_SPACE} THEN Ev.kind ELSE 0
  /\ UNCHANGED <<tr, phase, lastUser, corrupt, base0, kase, nres>> /\ LedgerFrame /\ UNCHANGED Sched
  /\ Advance
TNotify ==
  /\ Ev.ev = "Notify"
  /\ pfault' = IF pfault # 0 /\ Ev.ntype = NoteFor(pfault) THEN 0 ELSE pfault
  /\ UNCHANGED <<tr, phase, lastUser, corrupt, base0, kase, nres>> /\ LedgerFrame /\ UNCHANGED Sched
  /\ Advance
\* C08 / C11: the table invariants on the observed sync state after the step (when the run records it)
StateChecks(ob) ==
  /\ Check(FoundByOid(ob), "FoundByOid")
  /\ Check(FoundByPath(ob), "FoundByPath")
  /\ Check(NoStaleOidSlot(ob), "NoStaleOidSlot")
  /\ Check(NoStalePathSlot(ob), "NoStalePathSlot")
  /\ Check(OneOwnerPerOid(ob), "OneOwnerPerOid")
  /\ Check(PendingExact(ob), "PendingExact")
  /\ Check(PersistExact(ob), "PersistExact")
  /\ IF "oidx" \in DOMAIN ob.reload THEN Check(ReloadSame(ob), "ReloadSame") ELSE TRUE
TStepEnd ==
  /\ Ev.ev = "StepEnd"
  /\ Check(pfault = 0, "FaultNotified")
  /\ IF "st" \in DOMAIN Ev THEN StateChecks(Ev.st) ELSE TRUE
  /\ IF "post" \in DOMAIN Ev
       THEN LET o == Obs(Ev.post) IN
              /\ Conform(tr = o, "StepEffect")
              /\ Check(OriginClause(o), "OriginUntouched")
              /\ Check(OutsideUntouched(o, lastUser), "OutsideUntouched")
              /\ tr' = o
       ELSE tr' = tr
  /\ pfault' = 0
  /\ LedgerFrame /\ UNCHANGED <<phase, lastUser, corrupt, base0, kase, nres>> /\ UNCHANGED Sched
  /\ Advance

\* ---- C20: on-demand sync --------------------------------------------------------------------------------------
FilesOf(t) == {p \in DOMAIN t : t[p] # DIR}
DirsOf(t)  == {p \in DOMAIN t : t[p] = DIR}
AutoMatch(p) == p[Len(p)] \in SeqSet(kase.auto)
SmartQuiet(o) ==
  /\ Check(DirsOf(o[1]) = DirsOf(o[2]), "FoldersMirrored")
  /\ Check(\A p \in FilesOf(o[1]) : HasConflicted(p) \/ (Has(o[2], p) /\ o[2][p] = o[1][p]), "LocalFilesInSync")
  /\ Check(\A p \in sm.req : (Has(o[2], p) /\ o[2][p] # DIR) => (Has(o[1], p) /\ o[1][p] = o[2][p]), "RequestedDownloaded")
  /\ Check(\A p \in FilesOf(o[2]) : (p \notin sm.req /\ p \notin sm.made /\ ~AutoMatch(p)) => ~Has(o[1], p), "UnrequestedStayRemote")
TReq ==
  /\ Ev.ev \in {"Req", "ReqEnd"}
  /\ IF Ev.ev = "Req"
       THEN sm' = [sm EXCEPT !.req = @ \cup {Ev.path}] /\ tr' = tr
       ELSE /\ sm' = IF Ev.ok = 1 THEN sm ELSE [sm EXCEPT !.req = @ \ {Ev.path}]      \* a refused request (unknown file) is no request
            /\ tr' = Obs(Ev.post)
  /\ UNCHANGED <<phase, lastUser, corrupt, base0, kase, nres, pfault, notif, cur, aging, walked, xf, runA>> /\ LedgerFrame
  /\ Advance
TUnreq ==
  /\ Ev.ev \in {"Unreq", "UnreqEnd"}
  /\ IF Ev.ev = "Unreq"
       THEN /\ sm' = [sm EXCEPT !.un = Ev.path, !.req = @ \ {Ev.path}, !.pre = tr]
            /\ tr' = tr
       ELSE LET o == Obs(Ev.post)
                p == sm.un
                pre == sm.pre
                failed == "ok" \in DOMAIN Ev /\ Ev.ok = 0        \* the call raised (a provider fault during the upload-first step)
            IN /\ Check(Has(pre[2], p) => (Has(o[2], p) /\ o[2][p] # DIR), "UnsyncKeepsRemote")
               /\ IF failed
                    THEN \* an un-request that could not upload the newer local edit must leave the local copy where it is
                         /\ Check(Has(pre[1], p) => (Has(o[1], p) /\ o[1][p] = pre[1][p]), "FailedUnsyncKeepsLocal")
                         /\ sm' = [sm EXCEPT !.un = <<>>, !.req = @ \cup {p}]
                    ELSE /\ Check(~Has(o[1], p), "UnsyncRemovesLocal")
                         \* a local edit the remote had not received yet must be there now
                         /\ Check(IF p \in sm.made /\ Has(pre[1], p) /\ Has(pre[2], p) /\ pre[1][p] # pre[2][p]
                                  THEN Has(o[2], p) /\ o[2][p] = pre[1][p] ELSE TRUE, "UnsyncUploadsNewerFirst")
                         /\ sm' = [sm EXCEPT !.un = <<>>, !.made = @ \ {p}]
               /\ tr' = o
  /\ UNCHANGED <<phase, corrupt, base0, kase, nres, pfault, notif, cur, aging, walked, xf, runA>> /\ LedgerFrame
  /\ lastUser' = IF Ev.ev = "UnreqEnd" THEN [lastUser EXCEPT ![1] = Obs(Ev.post)[1]] ELSE lastUser
  /\ Advance
\* the merged listing: every local file synced, every not-yet-downloaded remote file not synced, nothing else
TListing ==
  /\ Ev.ev = "Listing"
  /\ LET o == Obs(Ev.post)
         d == Ev.dir
         kidsL == {p[Len(p)] : p \in {q \in FilesOf(o[1]) : Parent(q) = d}}
         kidsR == {p[Len(p)] : p \in {q \in FilesOf(o[2]) : Parent(q) = d}}
         got == {<<x[1], x[2]>> : x \in {y \in SeqSet(Ev.items) : y[3] = 2}}      \* files only
     IN Check(got = {<<nm, 1>> : nm \in kidsL} \cup {<<nm, 0>> : nm \in kidsR \ kidsL}, "ListingTruth")
  /\ UNCHANGED <<tr, phase, lastUser, corrupt>> /\ LedgerFrame /\ UNCHANGED Aux
  /\ Advance

\* ---- C05: the resolver contract, evaluated at quiet for behaviours that declare a single conflict ------------
\* kase = [kind "c05", path P, cidL, cidR, answer, pick, keep]; the only user operations are the two conflicting ones
ConfCells(o) == UNION {{<<s, p>> : p \in ConflictedPaths(o[s])} : s \in Sides}
C05Outcome(o) ==
  LET P    == kase.path
      diff == kase.cidL # kase.cidR
      mg   == IF merged = {} THEN 0 ELSE CHOOSE m \in merged : TRUE
      W    == IF ~diff THEN kase.cidL
              ELSE CASE kase.answer = "pick"  -> IF kase.pick = 0 THEN kase.cidL ELSE kase.cidR
                     [] kase.answer = "merge" -> mg
                     [] OTHER -> kase.cidR                      \* nothing / exception / garbage: remote wins
      Lo   == IF W = kase.cidL THEN kase.cidR ELSE kase.cidL
      keepLoser == diff /\ (IF kase.answer = "pick" THEN kase.keep = 1 ELSE kase.answer # "merge")
      want == Put(base0, P, W)
      cf   == ConfCells(o)
  IN /\ Check(nres = (IF diff THEN 1 ELSE 0), "ResolverCalledOnceIffDifferent")
     /\ IF diff /\ kase.answer = "merge" /\ kase.keep = 1 THEN TRUE      \* outcome not specified by the property
        ELSE /\ Check(StripConflicted(o[1]) = want /\ StripConflicted(o[2]) = want, "ResolverOutcome")
             /\ Check(IF keepLoser
                        THEN /\ cf # {}
                             /\ \A sp \in cf : o[sp[1]][sp[2]] = Lo /\ Parent(sp[2]) = Parent(P)
                             /\ Cardinality({sp[2] : sp \in cf}) = 1
                        ELSE cf = {}, "ResolverKeepsLoserIffKeep")
CaseAtQuiet(o) == IF kase.kind = "c05" THEN C05Outcome(o) ELSE TRUE

\* ---- the engine reports nothing left to do ------------------------------------------------------------------
\* paths a custom translate function declines are not expected to be mirrored
Visible(t) == IF kase.kind = "c12" /\ Len(kase.declined) > 0 THEN Drop(t, Under(t, kase.declined)) ELSE t
TQuiet ==
  /\ Ev.ev = "Quiet"
  /\ LET o == Obs(Ev.post) IN
       /\ Check(Converged(<<Visible(o[1]), Visible(o[2])>>), "Converged")
       /\ Check(OutsideUntouched(o, lastUser), "OutsideUntouched")
       /\ Check(NoLoss(o, corrupt), "NoLoss")
       /\ Check(NoInvented(o), "NoInventedContent")
       /\ IF exOK
            THEN /\ Check(IF walked THEN CoversExpected(o) ELSE AsExpected(o), "AsExpected")
                 /\ Check(NoArtefacts(o), "NoArtefacts")
            ELSE TRUE
       /\ tr' = o
       /\ IF o[1] = o[2] THEN WindowReset ELSE UNCHANGED <<chg, anc, win>>
       /\ CaseAtQuiet(o)
       /\ IF kase.kind = "c20" THEN SmartQuiet(o) ELSE TRUE
  /\ UNCHANGED <<written, killed, dropped, merged, expect, exOK, origin, tags, phase, lastUser, corrupt>> /\ UNCHANGED Aux
  /\ Advance
TNoQuiet ==
  /\ Ev.ev = "NoQuiet"
  /\ Check(FALSE, "ReachesQuiet")
  /\ tr' = Obs(Ev.post)
  /\ LedgerFrame /\ UNCHANGED <<phase, lastUser, corrupt>> /\ UNCHANGED Aux
  /\ Advance
\* C10 "a file that keeps failing ... is set aside without stopping other files from synchronising": a progress report after a
\* bounded number of fair rounds while one path is still failing - everything except that path (and what lies under it) has
\* been synchronised.  kase = [kind "c10s", stuck <<path>>]
StuckOnly(o) == kase.kind = "c10s" => Diff(StripConflicted(o[1]), StripConflicted(o[2])) \subseteq {p \in DOMAIN o[1] \cup DOMAIN o[2] : IsPrefix(kase.stuck, p)}
TProgress ==
  /\ Ev.ev \in {"Progress", "Unstick"}
  /\ IF Ev.ev = "Progress"
       THEN LET o == Obs(Ev.post) IN
              /\ Check(StuckOnly(o), "OthersNotStarved")
              /\ Conform(Ev.hits > 0, "StuckFileRetried")        \* vacuity guard: the path really kept failing
              /\ tr' = o
       ELSE tr' = tr
  /\ LedgerFrame /\ UNCHANGED <<phase, lastUser, corrupt>> /\ UNCHANGED Aux
  /\ Advance
TEscape ==
  /\ Ev.ev = "Escape"
  /\ Check(FALSE, "NoEscape")
  /\ UNCHANGED <<tr, phase, lastUser, corrupt>> /\ LedgerFrame /\ UNCHANGED Aux
  /\ Advance
TAfter ==
  /\ Ev.ev \in {"AfterQuiet", "AfterQuietEnd"}
  /\ IF Ev.ev = "AfterQuietEnd"
       THEN /\ Check(Ev.busy = 0, "StaysQuiet")
            /\ Check(Converged(<<Visible(Obs(Ev.post)[1]), Visible(Obs(Ev.post)[2])>>), "Converged")
            /\ phase' = "run" /\ tr' = Obs(Ev.post)
       ELSE phase' = "after" /\ tr' = tr
  /\ LedgerFrame /\ UNCHANGED <<lastUser, corrupt>> /\ UNCHANGED Aux
  /\ Advance

\* ---- resolver call: what the application's answer allows the engine to discard / write -------------------------
HandleTruthful(hd) ==
  LET s == hd.side + 1 IN s \in Sides /\ Has(tr[s], hd.path) /\ tr[s][hd.path] = hd.cid
TResolve ==
  /\ Ev.ev = "Resolve"
  /\ Check(Ev.h1.cid # Ev.h2.cid, "ResolverOnlyOnDifferentContent")
  /\ Check(Ev.h1.side # Ev.h2.side /\ HandleTruthful(Ev.h1) /\ HandleTruthful(Ev.h2), "ResolverHandlesTruthful")
  /\ nres' = nres + 1 /\ UNCHANGED <<base0, kase, pfault>> /\ UNCHANGED Sched
  /\ merged' = IF Ev.merged # 0 THEN merged \cup {Ev.merged} ELSE merged
  /\ dropped' = dropped \cup
        (IF Ev.keep = 1 THEN {}
         ELSE IF Ev.answer = "merge" THEN {Ev.h1.cid, Ev.h2.cid}
         ELSE IF Ev.answer = "pick" THEN {IF Ev.h1.side = Ev.pick THEN Ev.h2.cid ELSE Ev.h1.cid}
         ELSE {})
  /\ UNCHANGED <<tr, written, killed, expect, exOK, chg, anc, origin, win, tags, phase, lastUser, corrupt>>
  /\ Advance

\* ---- declared shape of the behaviour (C05 resolver families) -------------------------------------------
TCase ==
  /\ Ev.ev = "Case"
  /\ kase' = Ev
  /\ UNCHANGED <<tr, phase, lastUser, corrupt, base0, nres, pfault>> /\ LedgerFrame /\ UNCHANGED Sched
  /\ Advance

TCorrupt ==
  /\ Ev.ev = "Corrupt"
  /\ LET s == Ev.side + 1 IN
       corrupt' = IF Has(tr[s], Ev.path) /\ tr[s][Ev.path] # DIR
                  THEN corrupt \cup {<<s, Ev.path, tr[s][Ev.path]>>} ELSE corrupt
  /\ UNCHANGED <<tr, phase, lastUser>> /\ LedgerFrame /\ UNCHANGED Aux
  /\ Advance

TIntake ==
  /\ Ev.ev = "Intake"
  /\ LET k == <<Ev.side + 1, Ev.oid>> IN
       notif' = [x \in DOMAIN notif \cup {k} |-> IF x = k THEN Ev.now ELSE notif[x]]
  /\ UNCHANGED <<tr, phase, lastUser, corrupt, base0, kase, nres, pfault, cur, aging, walked, xf, runA, sm>> /\ LedgerFrame
  /\ Advance
TSyncEntry ==
  /\ Ev.ev = "SyncEntry"
  /\ cur' = [oids |-> Ev.oids, neg |-> Ev.neg]
  /\ UNCHANGED <<tr, phase, lastUser, corrupt, base0, kase, nres, pfault, notif, aging, walked, xf, runA, sm>> /\ LedgerFrame
  /\ Advance
\* C06: a new engine is started over the same storage and accounts
TRestart ==
  /\ Ev.ev = "Restart"
  /\ walked' = (walked \/ Ev.variant # "intact")
  /\ tr' = Obs(Ev.post)
  /\ UNCHANGED <<phase, lastUser, corrupt, base0, kase, nres, pfault, notif, cur, aging, xf, runA, sm>> /\ LedgerFrame
  /\ Advance

\* state-level family: a raw event tuple (or a discard) was applied to a real SyncState; only the table is judged
TStateOp ==
  /\ Ev.ev \in {"StateOp", "StateBase"}
  /\ IF Ev.ev = "StateOp"
       THEN /\ Check(Ev.exc = "", "NoException")
            /\ IF Ev.exc = "" THEN StateChecks(Ev.st) ELSE TRUE
       ELSE TRUE
  /\ UNCHANGED <<tr, phase, lastUser, corrupt>> /\ LedgerFrame /\ UNCHANGED Aux
  /\ Advance

\* events that carry no obligation for this module (other modules extend the disjunction)
Skippable == {"StepBegin", "CorruptRead", "Stop", "Crash", "Note"}
TSkip ==
  /\ Ev.ev \in Skippable
  /\ tr' = IF "post" \in DOMAIN Ev THEN Obs(Ev.post) ELSE tr
  /\ UNCHANGED <<phase, lastUser, corrupt>> /\ LedgerFrame /\ UNCHANGED Aux
  /\ Advance

TraceNext ==
  /\ l <= Len(Tr)
  /\ \/ TBase \/ TUser \/ TECall \/ TStepEnd \/ TQuiet \/ TNoQuiet \/ TEscape \/ TAfter \/ TResolve
     \/ TCorrupt \/ TSkip \/ TCase \/ TFault \/ TNotify \/ TIntake \/ TSyncEntry \/ TRestart \/ TSecondRun \/ TCompare \/ TStateOp \/ TUserModel \/ TPrim \/ TReq \/ TUnreq \/ TListing \/ TProgress
TraceSpec == TraceInit /\ [][TraceNext]_tvars

ASSUME TLCSet(1, {}) /\ TLCSet(2, 0) /\ TLCSet(3, {})
Report == PrintT("@@" \o ToJson([violations |-> TLCGet(1), completed |-> TLCGet(2),
                                 nonconf |-> TLCGet(3), traces |-> Len(Traces)]))
=============================================================================

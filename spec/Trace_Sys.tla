----------------------------- MODULE Trace_Sys -----------------------------
(***************************************************************************)
(* Trace validation for the system-level properties (C01-C04, C12 and the   *)
(* clauses other modules add).  One recorded event of the real engine run   *)
(* per line (vh/sysdrv.py): user operations, engine-issued provider calls   *)
(* with arguments and result, step boundaries with the observed trees,      *)
(* quiet reports.  Every line is a step of Sys.tla; every property clause    *)
(* is evaluated BY TLC at the step it talks about.  Acceptance is total:     *)
(* a false clause is recorded in register 1 as <<tid, line, clause, tags>>   *)
(* and the trace goes on; a disagreement between the reference tree          *)
(* semantics and the observed trees is a NONCONFORMANCE (register 3), after   *)
(* which the model is re-synchronised with the observation.                   *)
(***************************************************************************)
EXTENDS Sys, Json, IOUtils

VARIABLES tid, l, phase, lastUser, corrupt
tvars == <<tr, written, killed, dropped, merged, expect, exOK, chg, anc, origin, win, tags,
           tid, l, phase, lastUser, corrupt>>

Traces == JsonDeserialize(IOEnv.TRACE_FILE)
Tr == Traces[tid]
Ev == Tr[l]

Viol(clause)     == TLCSet(1, TLCGet(1) \cup {<<tid, l, clause, tags>>})
Check(c, clause) == IF c THEN TRUE ELSE Viol(clause)
NonConf(what)    == TLCSet(3, TLCGet(3) \cup {<<tid, l, what>>})
Conform(c, what) == IF c THEN TRUE ELSE NonConf(what)

Obs(post) == <<ToTree(post[1]), ToTree(post[2])>>
OK == 1

Advance ==
  /\ l' = l + 1 /\ UNCHANGED tid
  /\ IF l = Len(Tr) THEN TLCSet(2, TLCGet(2) + 1) ELSE TRUE

LedgerFrame == UNCHANGED <<written, killed, dropped, merged, expect, exOK, chg, anc, origin, win, tags>>

TraceInit ==
  /\ tid \in 1..Len(Traces) /\ l = 1
  /\ tr = <<EmptyTree, EmptyTree>>
  /\ written = {} /\ killed = {} /\ dropped = {} /\ merged = {}
  /\ expect = EmptyTree /\ exOK = TRUE
  /\ chg = <<{}, {}>> /\ anc = <<{}, {}>> /\ origin = 0
  /\ win = EmptyWin /\ tags = {}
  /\ phase = "run" /\ lastUser = <<EmptyTree, EmptyTree>> /\ corrupt = {}

\* ---- the synchronised starting point ----------------------------------------------------------
TBase ==
  /\ Ev.ev = "Base"
  /\ LET o == Obs(Ev.post) IN
       /\ tr' = o /\ lastUser' = o /\ expect' = o[1]
       /\ written' = (Cells(o[1]) \cup Cells(o[2])) \ {DIR}
  /\ UNCHANGED <<killed, dropped, merged, exOK, chg, anc, origin, win, tags, phase, corrupt>>
  /\ Advance

\* ---- a user operation (environment) ---------------------------------------------------------------
TUser ==
  /\ Ev.ev = "UserOp"
  /\ LET s  == Ev.side + 1
         op == [k |-> Ev.op, p |-> Ev.path, q |-> Ev.dst, c |-> Ev.cid]
         o  == Obs(Ev.post)
         ap == Applies(tr[s], op)
     IN /\ Conform((Ev.ok = 1) = ap, "UserOpApplicability")
        /\ Conform(IF Ev.ok = 1 /\ ap THEN Apply(tr[s], op) = o[s] ELSE tr[s] = o[s], "UserOpEffect")
        /\ Conform(tr[Other(s)] = o[Other(s)], "UserOpOtherSide")
        /\ IF Ev.ok = 1 /\ ap
             THEN UserEffect(s, op, o[s])
             ELSE /\ UNCHANGED <<written, killed, expect, exOK, chg, anc, origin>>
                  /\ TagEffect(s, op, FALSE, chg, anc)
        /\ tr' = o
        /\ lastUser' = [lastUser EXCEPT ![s] = o[s]]
  /\ UNCHANGED <<dropped, merged, phase, corrupt>>
  /\ Advance

\* ---- an engine-issued provider call: the contract guards are checked here ---------------------------
ECallChecks(s) ==
  LET p == Ev.path
      c == Ev.cid
  IN /\ Check(phase # "after", "NoEcho")
     /\ CASE Ev.op = "create" ->
               /\ Check(InsideOK(p), "InsideRoot")
               /\ Check(ContentOK(c), "NoInventedContent")
          [] Ev.op = "upload" ->
               /\ Check(InsideOK(p), "InsideRoot")
               /\ Check(ContentOK(c), "NoInventedContent")
               /\ Check(LastCopyOK(tr, s, p, corrupt), "LastCopy")
               /\ Check(IF Has(tr[s], p) THEN tr[s][p] # c ELSE TRUE, "Productive")
          [] Ev.op = "rename" ->
               /\ Check(InsideOK(p) /\ InsideOK(Ev.src), "InsideRoot")
               /\ Check(Ev.src # p, "Productive")
          [] Ev.op = "mkdir" -> Check(InsideOK(p) \/ p = <<ROOT>>, "InsideRoot")
          [] Ev.op = "delete" ->
               /\ Check(InsideOK(p), "InsideRoot")
               /\ Check(LastCopyOK(tr, s, p, corrupt), "LastCopy")
ECallEffect(s) ==
  LET p == Ev.path
      t == tr[s]
  IN CASE Ev.op = "create" -> IF CanCreate(t, p) THEN Create(t, p, Ev.cid) ELSE t
       [] Ev.op = "upload" -> IF CanWrite(t, p) THEN Write(t, p, Ev.cid) ELSE t
       [] Ev.op = "rename" -> IF CanRename(t, Ev.src, p) THEN Rename(t, Ev.src, p) ELSE t
       [] Ev.op = "mkdir"  -> IF CanMkdir(t, p) THEN Mkdir(t, p) ELSE t
       [] Ev.op = "delete" -> IF CanDelete(t, p) THEN Delete(t, p) ELSE t
ECallApplicable(s) ==
  LET p == Ev.path
      t == tr[s]
  IN CASE Ev.op = "create" -> CanCreate(t, p)
       [] Ev.op = "upload" -> CanWrite(t, p)
       [] Ev.op = "rename" -> CanRename(t, Ev.src, p)
       [] Ev.op = "mkdir"  -> CanMkdir(t, p)
       [] Ev.op = "delete" -> CanDelete(t, p)
TECall ==
  /\ Ev.ev = "ECall"
  /\ LET s == Ev.side + 1 IN
       IF Ev.res = OK /\ Ev.noop = 0
         THEN /\ ECallChecks(s)
              /\ Conform(ECallApplicable(s), "ECallApplicability")
              /\ tr' = [tr EXCEPT ![s] = ECallEffect(s)]
         ELSE tr' = tr
  /\ LedgerFrame /\ UNCHANGED <<phase, lastUser, corrupt>>
  /\ Advance

\* ---- step boundaries ------------------------------------------------------------------------------------
\* C03: while only one side has ever been changed by users, the engine makes no effective change there
OriginClause(o) == IF origin \in {1, 2} THEN o[origin] = lastUser[origin]
                   ELSE IF origin = 0 THEN o = lastUser ELSE TRUE
TStepEnd ==
  /\ Ev.ev = "StepEnd"
  /\ IF "post" \in DOMAIN Ev
       THEN LET o == Obs(Ev.post) IN
              /\ Conform(tr = o, "StepEffect")
              /\ Check(OriginClause(o), "OriginUntouched")
              /\ tr' = o
       ELSE tr' = tr
  /\ LedgerFrame /\ UNCHANGED <<phase, lastUser, corrupt>>
  /\ Advance

\* ---- the engine reports nothing left to do ------------------------------------------------------------------
TQuiet ==
  /\ Ev.ev = "Quiet"
  /\ LET o == Obs(Ev.post) IN
       /\ Check(Converged(o), "Converged")
       /\ Check(NoLoss(o, corrupt), "NoLoss")
       /\ Check(NoInvented(o), "NoInventedContent")
       /\ IF exOK THEN Check(AsExpected(o), "AsExpected") /\ Check(NoArtefacts(o), "NoArtefacts") ELSE TRUE
       /\ tr' = o
       /\ IF o[1] = o[2] THEN WindowReset ELSE UNCHANGED <<chg, anc, win>>
  /\ UNCHANGED <<written, killed, dropped, merged, expect, exOK, origin, tags, phase, lastUser, corrupt>>
  /\ Advance
TNoQuiet ==
  /\ Ev.ev = "NoQuiet"
  /\ Check(FALSE, "ReachesQuiet")
  /\ tr' = Obs(Ev.post)
  /\ LedgerFrame /\ UNCHANGED <<phase, lastUser, corrupt>>
  /\ Advance
TEscape ==
  /\ Ev.ev = "Escape"
  /\ Check(FALSE, "NoEscape")
  /\ UNCHANGED <<tr, phase, lastUser, corrupt>> /\ LedgerFrame
  /\ Advance
TAfter ==
  /\ Ev.ev \in {"AfterQuiet", "AfterQuietEnd"}
  /\ IF Ev.ev = "AfterQuietEnd"
       THEN /\ Check(Ev.busy = 0, "StaysQuiet")
            /\ Check(Converged(Obs(Ev.post)), "Converged")
            /\ phase' = "run" /\ tr' = Obs(Ev.post)
       ELSE phase' = "after" /\ tr' = tr
  /\ LedgerFrame /\ UNCHANGED <<lastUser, corrupt>>
  /\ Advance

\* ---- resolver call: what the application's answer allows the engine to discard / write -------------------------
TResolve ==
  /\ Ev.ev = "Resolve"
  /\ merged' = IF Ev.merged # 0 THEN merged \cup {Ev.merged} ELSE merged
  /\ dropped' = dropped \cup
        (IF Ev.keep = 1 THEN {}
         ELSE IF Ev.answer = "merge" THEN {Ev.h1.cid, Ev.h2.cid}
         ELSE IF Ev.answer = "pick" THEN {IF Ev.h1.side = Ev.pick THEN Ev.h2.cid ELSE Ev.h1.cid}
         ELSE {})
  /\ UNCHANGED <<tr, written, killed, expect, exOK, chg, anc, origin, win, tags, phase, lastUser, corrupt>>
  /\ Advance

TCorrupt ==
  /\ Ev.ev = "Corrupt"
  /\ LET s == Ev.side + 1 IN
       corrupt' = IF Has(tr[s], Ev.path) /\ tr[s][Ev.path] # DIR
                  THEN corrupt \cup {<<s, Ev.path, tr[s][Ev.path]>>} ELSE corrupt
  /\ UNCHANGED <<tr, phase, lastUser>> /\ LedgerFrame
  /\ Advance

\* events that carry no obligation for this module (other modules extend the disjunction)
Skippable == {"StepBegin", "Notify", "Fault", "CorruptRead", "Stop", "Restart", "Crash", "Intake", "Note"}
TSkip ==
  /\ Ev.ev \in Skippable
  /\ tr' = IF "post" \in DOMAIN Ev THEN Obs(Ev.post) ELSE tr
  /\ UNCHANGED <<phase, lastUser, corrupt>> /\ LedgerFrame
  /\ Advance

TraceNext ==
  /\ l <= Len(Tr)
  /\ \/ TBase \/ TUser \/ TECall \/ TStepEnd \/ TQuiet \/ TNoQuiet \/ TEscape \/ TAfter \/ TResolve
     \/ TCorrupt \/ TSkip
TraceSpec == TraceInit /\ [][TraceNext]_tvars

ASSUME TLCSet(1, {}) /\ TLCSet(2, 0) /\ TLCSet(3, {})
Report == PrintT("@@" \o ToJson([violations |-> TLCGet(1), completed |-> TLCGet(2),
                                 nonconf |-> TLCGet(3), traces |-> Len(Traces)]))
=============================================================================

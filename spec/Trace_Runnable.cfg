CONSTANTS
  Ctls = {1, 2, 3}
  Owner = 1
  OpKinds = {"start", "stopTW", "stopTN", "stopFW", "stopFN", "wake", "wait", "waitT"}
  Outcomes = {"did", "nothing", "backoff", "exc", "base", "sstopF", "sstopT"}
  MaxCalls = 100000
  MaxDo = 100000
  UseUntil = TRUE
  PreStarted = FALSE
  FixedStopOrder = 0
  ResetInRun = FALSE
  BMin = 4
  BMax = 18
  BMulP = 3
  BMulQ = 2
  Sleeps = {8}
  PauseMax = FALSE
SPECIFICATION TraceSpec
POSTCONDITION Report
CHECK_DEADLOCK FALSE

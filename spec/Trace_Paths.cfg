\* the enumeration constants of Paths.tla are not used by the trace specification
CONSTANTS
  Seps = {1}
  Cases = {TRUE}
  Wins = {FALSE}
  Wins2 = {}
  LP = 0
  LQ = 0
  LR = 0
  Ext = {}
SPECIFICATION TraceSpec
INVARIANT Judge
POSTCONDITION Report
CHECK_DEADLOCK FALSE

\* design run (thorough): translation laws with the roots as spelled, all 64 pairs of conventions:
\* raw roots |p| <= 1, |r| <= 1 and the 14 listed re-spellings of join(p), join(r); relative part |q| <= 1
CONSTANTS
  Seps = {1, 2}
  Cases = {TRUE, FALSE}
  Wins = {TRUE, FALSE}
  Wins2 = {TRUE, FALSE}
  LP = 1
  LQ = 1
  LR = 1
  Ext = {}
SPECIFICATION PathsSpec
INVARIANT DesignYRaw
INVARIANT DesignYSpell
CHECK_DEADLOCK FALSE

------------------------------- MODULE Runnable -------------------------------
(***************************************************************************)
(* C18.  cloudsync.runnable.Runnable at shared-variable grain.              *)
(*                                                                          *)
(* One step per read or write of a field that more than one thread touches  *)
(* (__stopping, __shutdown, __interrupt and its Event flag, __thread);      *)
(* thread creation / bootstrap / death and join are steps.  The start-up of  *)
(* the loop thread is spelled out, because calls of other threads can land   *)
(* anywhere in it:                                                           *)
(*   sa5  start(): __stopping = False            (caller thread)            *)
(*   sa6  start(): __thread = Thread(...)        thread object, not started *)
(*   thS  Thread.start() entered (logged)        still not started ("new")  *)
(*   sa7  the OS thread is launched              start() waits for it       *)
(*   boot the new thread has bootstrapped        Thread.start() may return, *)
(*                                               so may start(): from here  *)
(*                                               on the service is started  *)
(*   runE run() entered by the loop thread (logged)                          *)
(*   r1   run(): per-run fields reset (__interrupt = Event())               *)
(* Between boot and r1 the service is "started" for its callers while the    *)
(* loop thread has not executed a single statement of run().  __stopped is   *)
(* written by the loop thread only and read only by the `stopped` property,  *)
(* on which no clause depends: omitted.  Reads by the loop thread of fields  *)
(* only the loop thread writes (__interrupt inside interruptable_sleep) are  *)
(* folded into the neighbouring step.                                       *)
(*                                                                          *)
(*   actor 0      the loop thread (body of run(), incl. the finally block;  *)
(*                a do() that calls self.stop() runs the stop steps itself) *)
(*   actors Ctls  controller threads issuing start / stop(forever, wait) /  *)
(*                wake / wait; only Owner issues start() (two concurrent    *)
(*                start() calls are outside this model: the code has no lock *)
(*                there and would create two loop threads)                  *)
(*                                                                          *)
(* Steps that the harness can observe without touching the source (method   *)
(* entry of the overridable do / interruptable_sleep / wake / wait / done,  *)
(* call and return of a controller call, return of run()) are explicit      *)
(* "logged" steps; everything else is silent.                               *)
(*                                                                          *)
(* Backoff arithmetic twice: symbolic (lp.k = e means in_backoff =         *)
(* min(max, min*mult^(e-1)), 0: not backing off; for mult >= 1, min >= 0    *)
(* the code's update min(max, max(in_backoff*mult, min)) maps e to e+1) and *)
(* numeric: lp.b is the value of in_backoff computed by the code's update,  *)
(* an exact rational, from the parameters lp.bp = (min, max, mult = p/q,    *)
(* the loop's ordinary `sleep`), all in one integer unit.  The pause at the *)
(* end of an iteration is in_backoff when in_backoff > 0, else `sleep`;     *)
(* `sleep` is a dimension of its own (constant set Sleeps: below min,       *)
(* between min and max, above max): the law says nothing about it while     *)
(* the service is backing off.                                              *)
(*                                                                          *)
(* The property clauses are evaluated by a monitor (`g`, `ga`) that is a    *)
(* function of the LOGGED steps only; the trace specifications reuse the    *)
(* monitor operators on the events recorded from the real class.            *)
(***************************************************************************)
EXTENDS Naturals, FiniteSets, Sequences, TLC

CONSTANTS Ctls,            \* controller thread ids (naturals >= 1)
          Owner,           \* the controller that may call start()
          OpKinds,         \* subset of AllKinds the controllers may issue
          Outcomes,        \* subset of AllOutcomes do() may produce
          MaxCalls,        \* total number of controller calls
          MaxDo,           \* do() calls with a free outcome (afterwards only "did")
          UseUntil,        \* run(until=...) may end the loop
          PreStarted,      \* TRUE: the initial state is the one right after a first start() has returned
                           \*       (spends the call budget on what happens to a running service)
          FixedStopOrder,  \* 0: code as found   stopping; wake(); shutdown = forever
                           \* 1: shutdown = forever; stopping; wake()
                           \* 2: if forever: shutdown = True; stopping; wake()
          BMin, BMax,      \* backoff parameters of the design runs, integers in one unit: min_backoff, max_backoff,
          BMulP, BMulQ,    \* mult_backoff = BMulP / BMulQ
          Sleeps,          \* the loop's ordinary sleep (run(sleep=...)): one of these per behaviour
          PauseMax,        \* FALSE: code as found  pause = in_backoff if in_backoff > 0 else sleep
                           \* TRUE:  design variant pause = max(sleep, in_backoff)  (EXPECTED to break the backoff law
                           \*        whenever sleep is larger than the first backoff steps)
          ResetInRun       \* FALSE: code as found  start() clears the stop request before it creates the thread
                           \* TRUE:  design variant: the loop thread clears it at the head of run() (EXPECTED to lose
                           \*        a stop() that lands between start() returning and the loop thread's first statement)

AllKinds    == {"start", "stopTW", "stopTN", "stopFW", "stopFN", "wake", "wait", "waitT"}
AllOutcomes == {"did", "nothing", "backoff", "exc", "base", "sstopF", "sstopT"}
Fails       == {"backoff", "exc", "base"}
SelfStops   == {"sstopF", "sstopT"}
Actors      == Ctls \cup {0}

IsStop(kd) == kd \in {"stopTW", "stopTN", "stopFW", "stopFN"}
Fin(kd)    == kd \in {"stopTW", "stopTN"}           \* forever = True
Wt(kd)     == kd \in {"stopTW", "stopFW"}           \* wait = True
IsWait(kd) == kd \in {"wait", "waitT"}

VARIABLES sh,      \* the object's shared fields and the thread objects
          lp,      \* loop thread: pc, backoff exponent, current outcome, number of do calls
          ac,      \* per actor: pc, kind of the call in progress, local thread handle, result
          ncalls,
          g, ga,   \* monitor (function of logged steps only)
          bad      \* names of the clauses the monitor found false

mvars == <<sh, lp, ac, ncalls>>
vars  == <<sh, lp, ac, ncalls, g, ga, bad>>

\* ===================================================================================
\* Monitor: pure operators, shared with Trace_Runnable
\* ===================================================================================
GInit == [run |-> FALSE, saved |-> FALSE, dirty |-> FALSE, armed |-> FALSE, pendNW |-> FALSE,
          pendFinal |-> FALSE, mustDone |-> FALSE, finalRet |-> FALSE, finalOpen |-> FALSE,
          revoked |-> FALSE, window |-> FALSE, everStop |-> FALSE, dc |-> 0, k |-> 0, last |-> "none",
          req |-> FALSE, rd |-> 0]
GAIdle == [cl |-> FALSE, wf |-> FALSE, fr |-> FALSE, ph |-> "none", kind |-> "none"]
GAInit(A) == [a \in A |-> GAIdle]

\* the bounded form of "a stop() for a started service returns / the wait() after it returns" (see GDoBad)
CannotReturn == "NoDoAfterStopReturned@StopCannotReturn"
Tag(gg)    == IF gg.window THEN "@StopOrderWindow" ELSE IF gg.revoked THEN "@FinalRevoked" ELSE ""
RevTag(gg) == IF gg.revoked THEN "@FinalRevoked" ELSE ""

\* --- a controller (or the loop thread itself, actor 0) enters a call -----------------------------
\* "running" (gg.run): a start() has returned normally and since then no stop() was entered, no start()
\* was entered and the loop has not reached its finally block.  A stop() is judged ("clean", cl) only if it
\* was entered while running and no other stop() overlaps it (two overlapping stop() calls may take effect in
\* either order, and a final stop() after a non-final one is a stop of a service that is no longer started):
\* "stop() for a started service".  Entering a start() un-judges every stop()/wait() in progress.
GCallG(gg, gaa, a, kd) ==
  IF kd = "start" THEN
     [gg EXCEPT !.saved = gg.run, !.run = FALSE, !.dirty = FALSE, !.armed = FALSE, !.pendNW = FALSE, !.pendFinal = FALSE,
                !.last = "none", !.req = FALSE, !.rd = 0]
  ELSE IF IsStop(kd) THEN
     [gg EXCEPT !.run = FALSE, !.dirty = TRUE, !.everStop = TRUE,
                !.revoked = gg.revoked \/ (~Fin(kd) /\ gg.finalOpen)
                            \/ (Fin(kd) /\ \E b \in DOMAIN gaa : IsStop(gaa[b].kind) /\ ~Fin(gaa[b].kind)),
                !.finalOpen = gg.finalOpen \/ Fin(kd)]
  ELSE gg
GCallA(gg, gaa, a, kd) ==
  LET base == IF kd = "start" \/ IsStop(kd) THEN [b \in DOMAIN gaa |-> [gaa[b] EXCEPT !.cl = FALSE]] ELSE gaa
      mine == IF kd = "start" THEN [GAIdle EXCEPT !.fr = gg.finalRet, !.ph = "called", !.kind = kd]
              ELSE IF IsStop(kd) THEN [GAIdle EXCEPT !.cl = gg.run /\ ~\E b \in DOMAIN gaa : IsStop(gaa[b].kind), !.ph = "called", !.kind = kd]
              ELSE IF IsWait(kd) THEN [GAIdle EXCEPT !.cl = gg.pendNW, !.wf = gg.pendFinal, !.ph = "called", !.kind = kd]
              ELSE [GAIdle EXCEPT !.ph = "called", !.kind = kd]
  IN [base EXCEPT ![a] = mine]

GWakeEnterA(gaa, a) == [gaa EXCEPT ![a].ph = "inwake"]
GWakeExitA(gaa, a)  == [gaa EXCEPT ![a].ph = "postwake"]
GWaitEnterA(gaa, a) == [gaa EXCEPT ![a].ph = "waiting"]
\* a judged stop() has made its request completely once it goes on to wait for the loop (here) or returns (GRetG):
\* gg.req; gg.rd counts the do() calls entered since then
GWaitEnterG(gg, gaa, a) ==
  IF gaa[a].cl /\ IsStop(gaa[a].kind) /\ ~gg.req THEN [gg EXCEPT !.req = TRUE, !.rd = 0] ELSE gg

\* --- a call returns; res in {"ok", "false", "exc"} ------------------------------------------------
GRetG(gg, gaa, a, res) ==
  LET me == gaa[a] kd == me.kind IN
  IF kd = "start" THEN
     [gg EXCEPT !.run = IF res = "ok" THEN ~gg.dirty ELSE gg.saved /\ ~gg.dirty]
  ELSE IF IsStop(kd) /\ res = "ok" THEN
     LET g0 == [gg EXCEPT !.finalRet = gg.finalRet \/ Fin(kd)]
         g1 == IF me.cl /\ ~g0.req THEN [g0 EXCEPT !.req = TRUE, !.rd = 0] ELSE g0 IN
     IF ~me.cl THEN g1
     ELSE IF Wt(kd) /\ a # 0 THEN [g1 EXCEPT !.armed = TRUE, !.mustDone = g1.mustDone \/ Fin(kd)]
     ELSE [g1 EXCEPT !.pendNW = TRUE, !.pendFinal = g1.pendFinal \/ Fin(kd)]
  ELSE IF IsWait(kd) /\ res = "ok" /\ me.cl THEN
     [gg EXCEPT !.armed = TRUE, !.mustDone = gg.mustDone \/ me.wf]
  ELSE gg
GRetA(gaa, a) == [gaa EXCEPT ![a] = GAIdle]
\* clauses evaluated when a call returns (gn = monitor state after the return)
GRetBad(gg, gaa, a, res) ==
  LET gn == GRetG(gg, gaa, a, res) IN
  (IF gaa[a].kind = "start" /\ gaa[a].fr /\ res = "ok" THEN {"NoRestartAfterFinalStop" \o RevTag(gg)} ELSE {})
  \cup (IF gn.mustDone /\ gn.dc # 1 THEN {"DoneExactlyOnceIfFinal" \o Tag(gn)} ELSE {})

\* --- do() is entered with outcome o -------------------------------------------------------------
NewK(k, o) == IF o \in Fails THEN k + 1 ELSE IF o = "nothing" THEN k ELSE 0
GDoG(gg, o) == [gg EXCEPT !.k = NewK(gg.k, o),
                          !.last = IF o \in Fails THEN "fail" ELSE IF o = "nothing" THEN "nothing" ELSE "ok",
                          !.rd = IF gg.req /\ gg.rd < 2 THEN gg.rd + 1 ELSE gg.rd]
\* armed: the stop() (or the wait() after a non-waiting stop) has returned: no do() at all.
\* req: the stop() has made its request (it is waiting for the loop, or it has returned without waiting) and nothing
\* has started the service again: the loop may still enter the ONE do() it was about to call when the request was
\* made ("allowing any do() to complete first"); a second one means the request is lost on the loop, so the stop()
\* that waits - or the wait() after it - can never return: the clause fails for want of a return.  A function of
\* the logged order only (no clock): this is how "stop() never returns" is judged on a finite trace.
GDoBad(gg) == (IF gg.armed THEN {"NoDoAfterStopReturned"} ELSE {})
              \cup (IF gg.req /\ gg.rd >= 1 THEN {CannotReturn} ELSE {})

\* --- the law, exact on rationals [num, den] -------------------------------------------------------------------
\* c = [mn, mx, p, q, norm]: min, max, mult = p/q, ordinary sleep.  After k consecutive failures the wait is
\* min(max, min * mult^(k-1)); evaluated exactly, stopping at the cap (mult >= 1 makes the sequence monotone, so once
\* capped always capped)
RECURSIVE Law(_, _)
Law(c, k) == IF k = 1 THEN (IF c.mn >= c.mx THEN [cap |-> TRUE, num |-> 0, den |-> 1]
                             ELSE [cap |-> FALSE, num |-> c.mn, den |-> 1])
             ELSE LET r == Law(c, k - 1) IN
                  IF r.cap THEN r
                  ELSE IF r.num * c.p >= c.mx * r.den * c.q THEN [cap |-> TRUE, num |-> 0, den |-> 1]
                  ELSE [cap |-> FALSE, num |-> r.num * c.p, den |-> r.den * c.q]
Rat(n) == [num |-> n, den |-> 1]
RatEq(x, y) == x.num * y.den = y.num * x.den
RatLt(x, y) == x.num * y.den < y.num * x.den
Reduce(x) == IF x.num % x.den = 0 THEN Rat(x.num \div x.den) ELSE x
\* the pause the property prescribes after k consecutive failures (k = 0: healthy); a wait of zero is "no waiting":
\* the loop then sleeps its ordinary period
Pause(c, k) ==
  IF k = 0 THEN Rat(c.norm)
  ELSE LET r == Law(c, k) IN
       IF r.cap THEN (IF c.mx > 0 THEN Rat(c.mx) ELSE Rat(c.norm))
       ELSE IF r.num > 0 THEN [num |-> r.num, den |-> r.den] ELSE Rat(c.norm)
Match(c, k, req) == RatEq(Pause(c, k), req)

\* --- the code's arithmetic ------------------------------------------------------------------------------------
\* __increment_backoff: in_backoff = min(max_backoff, max(in_backoff * mult_backoff, min_backoff))
IncB(c, b) == LET m  == [num |-> b.num * c.p, den |-> b.den * c.q]
                  lo == IF RatLt(m, Rat(c.mn)) THEN Rat(c.mn) ELSE m
              IN Reduce(IF RatLt(Rat(c.mx), lo) THEN Rat(c.mx) ELSE lo)
NewB(c, b, o) == IF o \in {"backoff", "exc", "base"} THEN IncB(c, b) ELSE IF o = "nothing" THEN b ELSE Rat(0)
\* the pause the loop asks for at the end of an iteration
Request(c, b) == IF PauseMax THEN (IF RatLt(b, Rat(c.norm)) THEN Rat(c.norm) ELSE b)
                 ELSE IF b.num > 0 THEN b ELSE Rat(c.norm)

\* --- interruptable_sleep is entered; `match`: the requested time is the one the law gives for gg.k ---
GSleepBad(gg, match) ==
  IF match THEN {} ELSE IF gg.last = "fail" THEN {"BackoffLaw"} ELSE {"ClearOnSuccess"}

\* --- done() is entered ----------------------------------------------------------------------------
GDoneG(gg) == [gg EXCEPT !.dc = gg.dc + 1]
GDoneBad(gg) == IF gg.mustDone /\ gg.dc + 1 # 1 THEN {"DoneExactlyOnceIfFinal" \o Tag(gg)} ELSE {}

\* --- run(until=...): the caller's predicate ended the loop; the service stops by itself, so a stop() that
\* is in progress is no longer a stop of a started service
GUntilG(gg) == [gg EXCEPT !.run = FALSE, !.dirty = TRUE, !.everStop = TRUE]
GUntilA(gaa) == [b \in DOMAIN gaa |-> [gaa[b] EXCEPT !.cl = FALSE]]

\* --- the finally block is about to read the final-stop flag (logged just before the read) -----------------
\* window: a judged final stop() has been entered but has not yet reached the statement after its wake()
\* (its wait() or its return): the flag may be read before stop() assigns it
GFinG(gg, gaa) ==
  [gg EXCEPT !.run = FALSE, !.dirty = TRUE,
             !.window = gg.window \/ \E b \in DOMAIN gaa :
                           gaa[b].cl /\ Fin(gaa[b].kind) /\ gaa[b].ph \in {"called", "inwake", "postwake"}]

\* the loop reaches its finally block right after a do() that raised although nobody has ever asked it to stop
GFinBad(gg, gaa) ==
  IF ~gg.everStop /\ gg.last = "fail" THEN {"SurvivesAnything"} ELSE {}

\* --- run() returns (exc: an exception escaped from it) ---------------------------------------------
GExitG(gg, gaa) == [gg EXCEPT !.run = FALSE, !.dirty = TRUE]
GExitBad(exc) == IF exc THEN {"SurvivesAnything"} ELSE {}

\* ===================================================================================
\* The implementation-shaped model
\* ===================================================================================
TState(h) == IF h = 0 THEN "none" ELSE IF h = sh.gen THEN sh.tst ELSE "dead"
AIdle == [pc |-> "idle", kind |-> "none", t |-> 0, res |-> "ok"]

BCfg(s) == [mn |-> BMin, mx |-> BMax, p |-> BMulP, q |-> BMulQ, norm |-> s]
LpInit(pc, c) == [pc |-> pc, k |-> 0, out |-> "did", ndo |-> 0, b |-> Rat(0), bp |-> c]
Init ==
  /\ sh = IF PreStarted
          THEN [stopping |-> FALSE, shutdown |-> FALSE, intr |-> 1, flag |-> FALSE, thread |-> 1, gen |-> 1, tst |-> "alive"]
          ELSE [stopping |-> FALSE, shutdown |-> FALSE, intr |-> 0, flag |-> FALSE, thread |-> 0, gen |-> 0, tst |-> "dead"]
  /\ \E s \in Sleeps : lp = LpInit(IF PreStarted THEN "top1" ELSE "none", BCfg(s))
  /\ ac = [a \in Actors |-> AIdle]
  /\ ncalls = 0
  /\ g = [GInit EXCEPT !.run = PreStarted] /\ ga = GAInit(Actors) /\ bad = {}

Silent == UNCHANGED <<g, ga, bad>>
LoopOnly == UNCHANGED <<ac, ncalls>>
Pc(p) == lp.pc = p
Go(p) == lp' = [lp EXCEPT !.pc = p]

\* ---- loop thread ----------------------------------------------------------------------------------
\* the new thread has bootstrapped (Thread.start() returns to its caller from here on); run() is not yet entered
LBoot == Pc("boot") /\ Go("runE") /\ sh' = [sh EXCEPT !.tst = "alive"] /\ LoopOnly /\ Silent
\* logged: run() entered by the loop thread
LRunE == Pc("runE") /\ Go("r1") /\ UNCHANGED <<sh, ac, ncalls, g, ga, bad>>
\* run(): the per-run fields are reset (design variant ResetInRun: the stop request as well)
LR1   == /\ Pc("r1") /\ Go("top1") /\ LoopOnly /\ Silent
         /\ sh' = [sh EXCEPT !.intr = 1, !.flag = FALSE, !.stopping = IF ResetInRun THEN FALSE ELSE sh.stopping]
LTop1 == Pc("top1") /\ Go(IF sh.stopping THEN "fin1" ELSE "top2") /\ UNCHANGED sh /\ LoopOnly /\ Silent
LTop2 == Pc("top2") /\ Go(IF sh.shutdown THEN "fin1" ELSE "doE") /\ UNCHANGED sh /\ LoopOnly /\ Silent
\* logged: do() entered; the outcome is what the work function is going to do
LDo(o) ==
  /\ Pc("doE")
  /\ o \in (IF lp.ndo < MaxDo THEN Outcomes ELSE {"did"})
  /\ lp' = [lp EXCEPT !.pc = "indo", !.out = o, !.ndo = IF lp.ndo < MaxDo THEN lp.ndo + 1 ELSE lp.ndo]
  /\ g' = GDoG(g, o) /\ bad' = bad \cup GDoBad(g)
  /\ UNCHANGED <<sh, ac, ncalls, ga>>
\* do() does its thing: returns / raises, or calls self.stop(...) first
LPerform ==
  /\ Pc("indo")
  /\ IF lp.out \in SelfStops
       THEN /\ Go("instop")
            /\ ac' = [ac EXCEPT ![0] = [AIdle EXCEPT !.pc = "pend", !.kind = IF lp.out = "sstopT" THEN "stopTW" ELSE "stopFW"]]
       ELSE /\ lp' = [lp EXCEPT !.pc = "chk1", !.k = NewK(lp.k, lp.out), !.b = NewB(lp.bp, lp.b, lp.out)]
            /\ UNCHANGED ac
  /\ UNCHANGED <<sh, ncalls>> /\ Silent
LDoRet ==
  /\ Pc("instop") /\ ac[0].pc = "idle"
  /\ lp' = [lp EXCEPT !.pc = "chk1", !.k = NewK(lp.k, "did"), !.b = Rat(0)]
  /\ UNCHANGED <<sh, ac, ncalls>> /\ Silent
LChk1 == Pc("chk1") /\ Go(IF sh.stopping THEN "fin1" ELSE "chk2") /\ UNCHANGED sh /\ LoopOnly /\ Silent
LChk2 == Pc("chk2") /\ Go(IF sh.shutdown THEN "fin1" ELSE "chk3") /\ UNCHANGED sh /\ LoopOnly /\ Silent
\* logged: the until() predicate returned True
LUntil ==
  /\ Pc("chk3") /\ UseUntil /\ Go("fin1")
  /\ g' = GUntilG(g) /\ ga' = GUntilA(ga)
  /\ UNCHANGED <<sh, ac, ncalls, bad>>
\* logged: interruptable_sleep(req) entered; the clause: the request is the pause the law gives for g.k
LSleepE(req) ==
  /\ Pc("chk3") /\ Go("sl2")
  /\ bad' = bad \cup GSleepBad(g, Match(lp.bp, g.k, req))
  /\ UNCHANGED <<sh, ac, ncalls, g, ga>>
LSl2w == Pc("sl2") /\ sh.flag /\ Go("sl3") /\ UNCHANGED sh /\ LoopOnly /\ Silent      \* Event.wait -> True
LSl2t == Pc("sl2") /\ ~sh.flag /\ Go("top1") /\ UNCHANGED sh /\ LoopOnly /\ Silent    \* timed out
LSl3  == Pc("sl3") /\ Go("top1") /\ sh' = [sh EXCEPT !.flag = FALSE] /\ LoopOnly /\ Silent
\* finally:
LFin1 == Pc("fin1") /\ Go("fin3") /\ sh' = [sh EXCEPT !.stopping = FALSE] /\ LoopOnly /\ Silent
LFin3 == Pc("fin3") /\ Go("finE") /\ sh' = [sh EXCEPT !.intr = 0] /\ LoopOnly /\ Silent
\* logged: the log line in the finally block, right before the final-stop flag is read
LFinE ==
  /\ Pc("finE") /\ Go("fin4")
  /\ g' = GFinG(g, ga) /\ bad' = bad \cup GFinBad(g, ga)
  /\ UNCHANGED <<sh, ac, ncalls, ga>>
LFin4 == Pc("fin4") /\ Go(IF sh.shutdown THEN "doneE" ELSE "exitE") /\ UNCHANGED sh /\ LoopOnly /\ Silent
\* logged: done() entered
LDone ==
  /\ Pc("doneE") /\ Go("exitE")
  /\ g' = GDoneG(g) /\ bad' = bad \cup GDoneBad(g)
  /\ UNCHANGED <<sh, ac, ncalls, ga>>
\* logged: run() returned
LExit ==
  /\ Pc("exitE") /\ Go("dying")
  /\ g' = GExitG(g, ga) /\ bad' = bad \cup GExitBad(FALSE)
  /\ UNCHANGED <<sh, ac, ncalls, ga>>
LDie  == Pc("dying") /\ Go("none") /\ sh' = [sh EXCEPT !.tst = "dead"] /\ LoopOnly /\ Silent

LoopSilent == LBoot \/ LR1 \/ LTop1 \/ LTop2 \/ LPerform \/ LDoRet \/ LChk1 \/ LChk2
              \/ LSl2w \/ LSl2t \/ LSl3 \/ LFin1 \/ LFin3 \/ LFin4 \/ LDie

\* ---- actors (controllers, and the loop thread inside a self-stop) -------------------------------------
APc(a, p) == ac[a].pc = p
AGo(a, p) == ac' = [ac EXCEPT ![a].pc = p]
ASilent == UNCHANGED <<lp, ncalls>> /\ Silent
First(kd) == IF kd = "start" THEN "sa1"
             ELSE IF IsStop(kd) THEN (IF FixedStopOrder > 0 THEN "st0" ELSE "st1")
             ELSE IF kd = "wake" THEN "wkE" ELSE "wtE"

\* logged: call entered
ACall(a, kd) ==
  /\ \/ a # 0 /\ APc(a, "idle") /\ ncalls < MaxCalls /\ kd \in OpKinds /\ (kd = "start" => a = Owner)
     \/ a = 0 /\ APc(0, "pend") /\ kd = ac[0].kind
  /\ ac' = [ac EXCEPT ![a] = [AIdle EXCEPT !.pc = First(kd), !.kind = kd]]
  /\ ncalls' = IF a = 0 THEN ncalls ELSE ncalls + 1
  /\ g' = GCallG(g, ga, a, kd) /\ ga' = GCallA(g, ga, a, kd)
  /\ UNCHANGED <<sh, lp, bad>>

\* stop(forever, wait)
ASt0(a) == APc(a, "st0") /\ AGo(a, "st1") /\ ASilent
           /\ sh' = [sh EXCEPT !.shutdown = IF FixedStopOrder = 1 THEN Fin(ac[a].kind) ELSE (sh.shutdown \/ Fin(ac[a].kind))]
ASt1(a) == APc(a, "st1") /\ AGo(a, "wkE") /\ ASilent /\ sh' = [sh EXCEPT !.stopping = TRUE]
\* wake(): logged entry, two reads of __interrupt, logged exit
AWkE(a) == APc(a, "wkE") /\ AGo(a, "wk1") /\ ga' = GWakeEnterA(ga, a) /\ UNCHANGED <<sh, lp, ncalls, g, bad>>
AWk1(a) == APc(a, "wk1") /\ AGo(a, IF sh.intr = 0 THEN "wkX" ELSE "wk2") /\ UNCHANGED sh /\ ASilent
AWk2(a) == /\ APc(a, "wk2") /\ ASilent
           /\ IF sh.intr = 0      \* the loop left between the two reads: None.set() raises AttributeError
                THEN ac' = [ac EXCEPT ![a].pc = "wkX", ![a].res = "exc"] /\ UNCHANGED sh
                ELSE AGo(a, "wkX") /\ sh' = [sh EXCEPT !.flag = TRUE]
AWkX(a) == /\ APc(a, "wkX") /\ ga' = GWakeExitA(ga, a) /\ UNCHANGED <<sh, lp, ncalls, g, bad>>
           /\ AGo(a, IF ac[a].res = "exc" \/ ac[a].kind = "wake" THEN "ret"
                     ELSE IF FixedStopOrder = 0 THEN "st3" ELSE "st4")
ASt3(a) == APc(a, "st3") /\ AGo(a, "st4") /\ ASilent /\ sh' = [sh EXCEPT !.shutdown = Fin(ac[a].kind)]
ASt4(a) == /\ APc(a, "st4") /\ UNCHANGED sh /\ ASilent
           /\ ac' = [ac EXCEPT ![a].t = sh.thread,
                                ![a].pc = IF sh.thread # 0 /\ a # 0 /\ Wt(ac[a].kind) THEN "wtE" ELSE "ret"]
\* wait(timeout): logged entry (the method is public and stop() goes through it)
AWtE(a) == /\ APc(a, "wtE") /\ AGo(a, "wt1") /\ ga' = GWaitEnterA(ga, a) /\ g' = GWaitEnterG(g, ga, a)
           /\ UNCHANGED <<sh, lp, ncalls, bad>>
AWt1(a) == /\ APc(a, "wt1") /\ UNCHANGED sh /\ ASilent
           /\ IF sh.thread # 0 /\ a # 0
                THEN ac' = [ac EXCEPT ![a].pc = "wt2", ![a].t = sh.thread]
                ELSE ac' = [ac EXCEPT ![a].pc = "ret", ![a].t = sh.thread, ![a].res = "false"]
AWt2(a) == /\ APc(a, "wt2") /\ UNCHANGED sh /\ ASilent
           /\ LET s == TState(ac[a].t) IN
              \/ s = "new" /\ ac' = [ac EXCEPT ![a].pc = "ret", ![a].res = "exc"]   \* join before started
              \/ s = "dead" /\ AGo(a, "ret")
              \/ s = "alive" /\ ac[a].kind = "waitT" /\ AGo(a, "wt3")              \* join timed out
AWt3(a) == /\ APc(a, "wt3") /\ UNCHANGED sh /\ ASilent
           /\ IF TState(ac[a].t) = "alive" THEN ac' = [ac EXCEPT ![a].pc = "ret", ![a].res = "exc"]
              ELSE AGo(a, "ret")
\* start()
ASa1(a) == /\ APc(a, "sa1") /\ UNCHANGED sh /\ ASilent
           /\ IF sh.shutdown THEN ac' = [ac EXCEPT ![a].pc = "ret", ![a].res = "exc"] ELSE AGo(a, "sa2")
ASa2(a) == APc(a, "sa2") /\ AGo(a, IF TState(sh.thread) = "alive" THEN "sa3" ELSE "sa4") /\ UNCHANGED sh /\ ASilent
ASa3(a) == APc(a, "sa3") /\ AGo(a, "sa4") /\ UNCHANGED sh /\ ASilent     \* join(timeout=1): joined or timed out
ASa4(a) == /\ APc(a, "sa4") /\ UNCHANGED sh /\ ASilent
           /\ IF TState(sh.thread) = "alive" THEN ac' = [ac EXCEPT ![a].pc = "ret", ![a].res = "exc"] ELSE AGo(a, "sa5")
ASa5(a) == /\ APc(a, "sa5") /\ AGo(a, "sa6") /\ ASilent
           /\ sh' = [sh EXCEPT !.stopping = IF ResetInRun THEN sh.stopping ELSE FALSE]
\* self.__thread = Thread(...): the thread object exists ("new": join() on it raises), no thread runs yet
ASa6(a) == /\ APc(a, "sa6") /\ lp.pc = "none" /\ AGo(a, "thS")
           /\ sh' = [sh EXCEPT !.thread = sh.gen + 1, !.gen = sh.gen + 1, !.tst = "new"]
           /\ lp' = [lp EXCEPT !.pc = "created"]
           /\ UNCHANGED ncalls /\ Silent
\* logged: Thread.start() entered
AThS(a) == APc(a, "thS") /\ AGo(a, "sa7") /\ UNCHANGED <<sh, lp, ncalls, g, ga, bad>>
\* the OS thread is launched ...
ASa7(a) == /\ APc(a, "sa7") /\ lp.pc = "created" /\ AGo(a, "sa8")
           /\ lp' = [lp EXCEPT !.pc = "boot"]
           /\ UNCHANGED <<sh, ncalls>> /\ Silent
\* ... and Thread.start() returns once the new thread has bootstrapped itself
ASa8(a) == APc(a, "sa8") /\ sh.tst # "new" /\ AGo(a, "ret") /\ UNCHANGED sh /\ ASilent
\* logged: call returned (res) or raised (res = "exc")
ARet(a, res) ==
  /\ APc(a, "ret") /\ res = ac[a].res
  /\ ac' = [ac EXCEPT ![a] = AIdle]
  /\ g' = GRetG(g, ga, a, res) /\ ga' = GRetA(ga, a) /\ bad' = bad \cup GRetBad(g, ga, a, res)
  /\ UNCHANGED <<sh, lp, ncalls>>

ActorSilent(a) == ASt0(a) \/ ASt1(a) \/ AWk1(a) \/ AWk2(a) \/ ASt3(a) \/ ASt4(a)
                  \/ AWt1(a) \/ AWt2(a) \/ AWt3(a)
                  \/ ASa1(a) \/ ASa2(a) \/ ASa3(a) \/ ASa4(a) \/ ASa5(a) \/ ASa6(a) \/ ASa7(a) \/ ASa8(a)
ActorLogged(a) == (\E kd \in AllKinds : ACall(a, kd)) \/ AWkE(a) \/ AWkX(a) \/ AWtE(a) \/ AThS(a)
                  \/ (\E r \in {"ok", "false", "exc"} : ARet(a, r))

Next == LoopSilent \/ LRunE \/ (\E o \in AllOutcomes : LDo(o)) \/ LSleepE(Request(lp.bp, lp.b)) \/ LUntil \/ LFinE \/ LDone \/ LExit
        \/ \E a \in Actors : ActorSilent(a) \/ ActorLogged(a)

Spec == Init /\ [][Next]_vars

\* ===================================================================================
\* Properties of the design
\* ===================================================================================
TypeOK ==
  /\ sh.intr \in {0, 1} /\ sh.thread \in 0..sh.gen /\ sh.tst \in {"new", "alive", "dead"}
  /\ lp.k \in Nat /\ lp.ndo \in 0..MaxDo /\ lp.out \in AllOutcomes
  /\ \A a \in Actors : ac[a].res \in {"ok", "false", "exc"}
  /\ (lp.pc = "none") = (sh.tst = "dead")
  /\ (lp.pc \in {"created", "boot"}) = (sh.tst = "new")

\* the six clauses: the monitor never finds the plain clause false ...
BackoffLaw              == "BackoffLaw" \notin bad
ClearOnSuccess          == "ClearOnSuccess" \notin bad
NoDoAfterStopReturned   == "NoDoAfterStopReturned" \notin bad
StopCanReturn           == CannotReturn \notin bad       \* same clause, the bounded "never returns" form
DoneExactlyOnceIfFinal  == "DoneExactlyOnceIfFinal" \notin bad
NoRestartAfterFinalStop == "NoRestartAfterFinalStop" \notin bad
\* ... SurvivesAnything: whatever do() raised, the loop goes on to its `until` check; run() never raises
SurvivesAnythingSeen == "SurvivesAnything" \notin bad
SurvivesAnything ==
  [][(lp.pc = "indo" /\ lp'.pc # "indo" /\ lp.out \notin SelfStops) => lp'.pc = "chk1"]_vars
\* the symbolic backoff exponent of the code equals the number of consecutive failures, 0 after a success that
\* did something (restated directly on the model state)
BackoffState == lp.pc \in {"chk1", "chk2", "chk3"} => lp.k = g.k

\* the two windows in which the code as found (FixedStopOrder = 0) loses a final stop
NoStopOrderWindow == "DoneExactlyOnceIfFinal@StopOrderWindow" \notin bad
NoFinalRevoked    == /\ "DoneExactlyOnceIfFinal@FinalRevoked" \notin bad
                     /\ "NoRestartAfterFinalStop@FinalRevoked" \notin bad
\* while the loop thread is alive, at most one of it exists (start() is single-threaded here)
=============================================================================

---------------------------- MODULE Trace_Storage ----------------------------
(* Trace validation for C09: every recorded call of a real backend, with the result it really   *)
(* returned, must be a step of Storage.tla.  Total: a failing clause is recorded in TLC register *)
(* 1 and the trace continues with the specification's effect.  Many traces per JVM (tid).        *)
EXTENDS Storage, Json, IOUtils
VARIABLES tid, l
tvars == <<rows, isOpen, res, tid, l>>

Traces == JsonDeserialize(IOEnv.TRACE_FILE)
Tr     == Traces[tid]
Ev     == Tr[l]

Viol(clause) == TLCSet(1, TLCGet(1) \cup {<<tid, l, clause>>})
Check(c, clause) == IF c THEN TRUE ELSE Viol(clause)
SeqToSet(s) == {s[k] : k \in 1..Len(s)}

TraceInit ==
  /\ tid \in 1..Len(Traces)
  /\ l = 1
  /\ StorageInit

Step(newrows) ==
  /\ rows' = newrows
  /\ l' = l + 1
  /\ res' = [op |-> Ev.op]
  /\ IF l = Len(Tr) THEN TLCSet(2, TLCGet(2) + 1) ELSE TRUE
  /\ UNCHANGED <<tid, isOpen>>

\* exc = 1 when the call raised an exception the interface does not document for this situation
NoExc == Check(Ev.exc = 0, "UnexpectedException")

TCreate ==
  /\ Ev.op = "create"
  /\ NoExc
  /\ Check(Ev.id \notin Live(rows, Ev.tag), "FreshId")
  /\ Step(CreateEff(rows, Ev.tag, Ev.id, Ev.val))
TUpdate ==
  /\ Ev.op = "update"
  /\ NoExc
  /\ Check(Ev.ok = (IF UpdateOK(rows, Ev.tag, Ev.id) THEN 1 ELSE 0), "UpdateMissingIsError")
  /\ Step(UpdateEff(rows, Ev.tag, Ev.id, Ev.val))
TDelete ==
  /\ Ev.op = "delete"
  /\ Check(Ev.exc = 0, "DeleteIdempotent")
  /\ Step(DeleteEff(rows, Ev.tag, Ev.id))
TRead ==
  /\ Ev.op = "read"
  /\ Check(Ev.exc = 0, "ReadMissingIsNothing")
  /\ Check(Ev.exc = 1 \/ Ev.val = ReadRes(rows, Ev.tag, Ev.id), "ReadLastWritten")
  /\ Step(rows)
TReadAll ==
  /\ Ev.op = "read_all"
  /\ NoExc
  /\ Check(SeqToSet(Ev.m) = ReadAllRes(rows, Ev.tag), "ReadAllExact")
  /\ Step(rows)
TReadAllTags ==
  /\ Ev.op = "read_all_tags"
  /\ NoExc
  /\ Check(SeqToSet(Ev.mm) = ReadAllTagsRes(rows), "ReadAllTagsExact")
  /\ Step(rows)
TReopen ==
  /\ Ev.op = "reopen"
  /\ NoExc
  /\ Step(rows)

TraceNext ==
  /\ l <= Len(Tr)
  /\ TCreate \/ TUpdate \/ TDelete \/ TRead \/ TReadAll \/ TReadAllTags \/ TReopen

TraceSpec == TraceInit /\ [][TraceNext]_tvars

ASSUME TLCSet(1, {}) /\ TLCSet(2, 0)
Report == PrintT("@@" \o ToJson([violations |-> TLCGet(1), completed |-> TLCGet(2), traces |-> Len(Traces)]))
=============================================================================

---------------------------- MODULE Gen_Provider ----------------------------
(* Behaviour generator for ProviderModel.tla: carries the call history `h`.                         *)
(*  EmitMode = "action": every transition taken is printed (history + hazard tags).  Run with       *)
(*     VIEW GenView, so that TLC expands every distinct TREE once (reached by a shortest history)   *)
(*     and prints every call from it: all transitions of the state graph up to MaxLen calls.        *)
(*  EmitMode = "final": for -simulate; calls before the last one must succeed and change the tree   *)
(*     (a failing call changes nothing, so it is only interesting as the last call of a history);   *)
(*     histories of length MaxLen are printed by the invariant Emit.                                 *)
(*  EmitMode = "content": like "action", for the CONTENT family (all contents, few names): once a   *)
(*     file exists only its own content and the contents that collide with it under partial         *)
(*     sampling are written (Partners: same bytes, same first KiB / same last KiB / same both),     *)
(*     into the same file or next to it.  Names are interchangeable there, so the first object is   *)
(*     made under the smallest name only (the mirror images are not generated).                      *)
(* A call is [op, p (path argument or <<>>), x (id argument or NoOid), c (content id or 0), tg].    *)
(* Hazard tags are computed here, over the call sequence: DESIGN.md 5.2.                            *)
EXTENDS ProviderModel, Json
CONSTANTS MaxLen, EmitMode
VARIABLE h
gvars   == <<fs, nextOid, feed, h>>
GenView == <<fs, nextOid>>

NamesOf(c) == {c.p[i] : i \in 1..Len(c.p)} \cup (IF OidIsPath THEN {c.x[i] : i \in 1..Len(c.x)} ELSE {})
Used(hh)   == UNION {NamesOf(hh[i]) : i \in 1..Len(hh)} \ {0}
NameTags(hh) ==
  LET U == Used(hh) IN
       (IF 4 \in U THEN {"NON_ASCII"} ELSE {})
  \cup (IF 5 \in U THEN {"DOTTED"} ELSE {})
  \cup (IF U \cap BadNames # {} THEN {"BADNAME"} ELSE {})
  \cup (IF ~CaseSensitive /\ \E a, b \in U : a # b /\ FoldName(a) = FoldName(b) THEN {"CASE_VARIANT"} ELSE {})
  \cup (IF ~CaseSensitive /\ \E a \in U : FoldName(a) # a THEN {"UPPER"} ELSE {})
Tags(hh) == NameTags(hh) \cup UNION {hh[i].tg : i \in 1..Len(hh)}
\* tags[i]: hazard tags of the first i calls (a failure after call i is attributed to the stratum of that prefix);
\* tg: the tags of the call itself
Out(hh)  == [calls |-> [i \in 1..Len(hh) |-> [op |-> hh[i].op, p |-> hh[i].p, x |-> hh[i].x, c |-> hh[i].c, tg |-> hh[i].tg]],
             tags |-> [i \in 1..Len(hh) |-> Tags(SubSeq(hh, 1, i))]]

Call(op, p, x, c, tg) == [op |-> op, p |-> p, x |-> x, c |-> c, tg |-> tg]
DepthOK(r) == \A o \in Live(r.fs) : Len(r.fs[o].path) <= MaxDepth
RenameTags(r) == (IF INVALID \in r.errs THEN {"SELF_NEST"} ELSE {})
                 \cup (IF Len(r.evs) = 2 THEN {"RENAME_ONTO"} ELSE {})
\* a path-style id passed in another spelling than the one the provider issued for that object (its stored path):
\* the engine only passes ids it received, so this is not the way the API is used
OidTags(x) == IF OidIsPath /\ ~CaseSensitive /\ \E o \in AtPath(fs, x) : fs[o].path # x THEN {"OID_CASE"} ELSE {}

Try(call, r) ==
  /\ DepthOK(r)
  /\ (EmitMode = "final" /\ Len(h) < MaxLen - 1) => (r.errs = {} /\ r.fs # fs)
  /\ Do(r)
  /\ h' = Append(h, call)
  /\ (EmitMode \in {"action", "content"}) => PrintT("@@" \o ToJson(Out(h')))

\* ids worth passing.  id-style: every id ever issued and one never issued.  path-style: every path that is or was
\* the path of an object (any case variant), and one path that never was.
GenOidArgs ==
  IF ~OidIsPath THEN OidArgs
  ELSE LET used == {p \in Paths : \/ \E o \in DOMAIN fs : (o # ROOT /\ Norm(fs[o].path) = Norm(p))
                                   \/ \E i \in 1..Len(feed) : (feed[i].oid = Norm(p) \/ feed[i].prior = Norm(p))}
           free == Paths \ used
       IN  used \cup (IF free = {} THEN {} ELSE {CHOOSE p \in free : TRUE})
\* contents of the live files
LiveContents == {fs[o].content : o \in {q \in Live(fs) : fs[q].type = FILE}}
Near         == Contents \cap UNION {Partners(c) : c \in LiveContents}
\* simulation: one group of colliding contents per step, to keep the branching moderate: on even steps the group
\* changes along the walk, on odd steps it is the group(s) of the files that exist (same bytes / colliding bytes
\* written over or next to them)
Rotating     == {c \in Contents : Group(c) = ((Len(h) + nextOid) % NGroups) + 1}
GenContents  == IF EmitMode = "final" THEN (IF Len(h) % 2 = 1 /\ Near # {} THEN Near ELSE Rotating)
                ELSE IF EmitMode = "content" THEN (IF Near # {} THEN Near ELSE Contents)
                ELSE Contents

\* path arguments: in the content family, as long as no object was ever made, only the smallest name
MinName  == CHOOSE n \in Names : \A m \in Names : n <= m
GenPaths == IF EmitMode = "content" /\ Len(fs) = 1 THEN {<<MinName>>} ELSE Paths

GenInit == PInit /\ h = <<>>
GenNext ==
  /\ Len(h) < MaxLen
  /\ \/ \E p \in GenPaths, c \in GenContents : Try(Call("create", p, NoOid, c, {}), PCreate(fs, nextOid, p, c))
     \/ \E p \in GenPaths : Try(Call("mkdir", p, NoOid, 0, {}), PMkdir(fs, nextOid, p))
     \/ \E x \in GenOidArgs, c \in GenContents : Try(Call("upload", <<>>, x, c, OidTags(x)), PUpload(fs, nextOid, x, c))
     \/ \E x \in GenOidArgs, p \in GenPaths :
           LET r == PRename(fs, nextOid, x, p) IN Try(Call("rename", p, x, 0, RenameTags(r) \cup OidTags(x)), r)
     \/ \E x \in GenOidArgs : Try(Call("delete", <<>>, x, 0, OidTags(x)), PDelete(fs, nextOid, x))
GenSpec == GenInit /\ [][GenNext]_gvars
Emit == (EmitMode = "final" /\ Len(h) = MaxLen) => PrintT("@@" \o ToJson(Out(h)))
=============================================================================

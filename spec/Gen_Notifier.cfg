CONSTANTS
  MaxN = 4
  Threaded = FALSE
SPECIFICATION GNSpec
INVARIANT Emit
CHECK_DEADLOCK FALSE

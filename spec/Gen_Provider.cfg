\* all transitions of the tree graph up to 3 calls: id-style, case-sensitive, names a, A, b (c16.py writes the
\* other flavours / bounds into its scratch directory from this template)
CONSTANTS
  Names = {1, 2, 3}
  MaxDepth = 2
  Contents = {3, 15}
  OidIsPath = FALSE
  CaseSensitive = TRUE
  BadNames = {}
  MaxMutations = 0
  MaxLen = 3
  EmitMode = "action"
SPECIFICATION GenSpec
VIEW GenView
INVARIANT Emit
CHECK_DEADLOCK FALSE

\* design-level: the contract guards make the loss/confinement invariants hold for ANY engine
CONSTANTS
  Paths <- MCPaths
  Cids = {1, 2}
  MaxUser = 2
  MaxEng = 3
SPECIFICATION MCSpec
VIEW MCView
INVARIANT InvNoLoss
INVARIANT InvNoInvented
INVARIANT InvWellFormed
INVARIANT InvLedger
INVARIANT InvConfined
CHECK_DEADLOCK FALSE

\* design run (quick): translation laws, all 64 pairs of conventions, root join(p) with |p| <= 1 against the bare root, relative part |q| <= 1
CONSTANTS
  Seps = {1, 2}
  Cases = {TRUE, FALSE}
  Wins = {TRUE, FALSE}
  Wins2 = {TRUE, FALSE}
  LP = 1
  LQ = 1
  LR = 0
  Ext = {}
SPECIFICATION PathsSpec
INVARIANT DesignX
CHECK_DEADLOCK FALSE

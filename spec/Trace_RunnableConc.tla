-------------------------- MODULE Trace_RunnableConc --------------------------
(* C18, code -> spec.  A recorded trace of real threads (events ordered by a sequence number taken under  *)
(* one recorder lock) is accepted iff SOME placement of the unlogged shared-variable steps of Runnable.tla *)
(* between the logged events explains it: logged events are the model's logged steps with the recorded      *)
(* parameters and results (outcome of do, result of a call: returned / returned False / raised), silent     *)
(* steps are bounded by the next logged event.  TLC searches the placement; a trace with no explanation is  *)
(* reported as NOT conforming to the implementation-shaped model (evidence), never as a property violation  *)
(* - the property clauses are Trace_Runnable's.                                                             *)
(* Cfg.direct = 1: run() was called directly by the recording thread (no start(), no thread object).        *)
EXTENDS Runnable, Json, IOUtils
VARIABLES tid, l
cvars == <<sh, lp, ac, ncalls, g, ga, bad, tid, l>>

Traces == JsonDeserialize(IOEnv.TRACE_FILE)
Tr  == Traces[tid]
Cfg == Tr[1]
Ev  == Tr[l]
Done(t) == <<t, 0, "Completed">> \in TLCGet(1)

CInit ==
  /\ tid \in 1..Len(Traces) /\ l = 2
  /\ sh = [stopping |-> FALSE, shutdown |-> FALSE, intr |-> 0, flag |-> FALSE, thread |-> 0, gen |-> 0,
           tst |-> IF Traces[tid][1].direct = 1 THEN "alive" ELSE "dead"]
  /\ lp = LpInit(IF Traces[tid][1].direct = 1 THEN "runE" ELSE "none",
                 [mn |-> Traces[tid][1].mn, mx |-> Traces[tid][1].mx, p |-> Traces[tid][1].p, q |-> Traces[tid][1].q,
                  norm |-> Traces[tid][1].norm])
  /\ ac = [a \in Actors |-> AIdle]
  /\ ncalls = 0
  /\ g = GInit /\ ga = GAInit(Actors) /\ bad = {}

Logged ==
  CASE Ev.e = "call"  -> ACall(Ev.a, Ev.kd)
    [] Ev.e = "ret"   -> ARet(Ev.a, Ev.res)
    [] Ev.e = "wkE"   -> AWkE(Ev.a)
    [] Ev.e = "wkX"   -> AWkX(Ev.a)
    [] Ev.e = "wtE"   -> AWtE(Ev.a)
    [] Ev.e = "thS"   -> AThS(Ev.a)
    [] Ev.e = "run"   -> LRunE
    [] Ev.e = "do"    -> LDo(Ev.out)
    [] Ev.e = "sleep" -> RatEq(Request(lp.bp, lp.b), Rat(Ev.req)) /\ LSleepE(Rat(Ev.req))
    [] Ev.e = "until" -> LUntil
    [] Ev.e = "fin"   -> LFinE
    [] Ev.e = "done"  -> LDone
    [] Ev.e = "exit"  -> Ev.exc = 0 /\ LExit

CNext ==
  /\ ~Done(tid)
  /\ \/ /\ l <= Len(Tr) /\ Logged /\ l' = l + 1 /\ UNCHANGED tid
        /\ IF l = Len(Tr) THEN TLCSet(1, TLCGet(1) \cup {<<tid, 0, "Completed">>}) ELSE TRUE
     \/ /\ l <= Len(Tr) /\ (LoopSilent \/ \E a \in Actors : ActorSilent(a)) /\ UNCHANGED <<tid, l>>
CSpec == CInit /\ [][CNext]_cvars

ASSUME TLCSet(1, {})
Report == PrintT("@@" \o ToJson([violations |-> TLCGet(1), completed |-> Cardinality(TLCGet(1)), traces |-> Len(Traces)]))
=============================================================================

\* sample trace-validation configuration, case-insensitive provider (run with TRACE_FILE=<json array of traces>)
CONSTANTS
  Names = {"a", "b", "A"}
  Ids = {1, 2, 3}
  Depth = 2
  CaseFold = TRUE
  Metas = {0, 1, 2}
SPECIFICATION TraceSpec
POSTCONDITION Report
CHECK_DEADLOCK FALSE

------------------------------ MODULE Gen_State ------------------------------
(***************************************************************************)
(* Generator for the state-level family of C08 / C11: sequences of raw       *)
(* provider events fed to SyncState.update() (type, id, path, hash, exists,   *)
(* prior id - including duplicated, stale and out-of-order tuples, because     *)
(* every combination is enumerated), interleaved with discards of an entry.    *)
(* For path-style sides the id IS the path (OidIsPath).                        *)
(***************************************************************************)
EXTENDS Naturals, Sequences, TLC, Json
CONSTANTS MaxLen, GSides, OidIsPath, CaseVariants
VARIABLE h

\* <<10, 7>> ("D") differs from <<10, 3>> ("d") only by case: on a case-insensitive side the two spell one path
PathsU == IF CaseVariants THEN { <<10, 1>>, <<10, 3>>, <<10, 7>>, <<10, 3, 1>> } ELSE { <<10, 1>>, <<10, 3>>, <<10, 3, 1>> }
Oids   == {1, 2}
Ev == IF OidIsPath
      THEN [op : {"update"}, side : GSides, otype : {1, 2}, path : PathsU, oid : {0}, hash : {0, 1, 2}, exists : {0, 1},
            prior : PathsU \cup {<<>>}]
      ELSE [op : {"update"}, side : GSides, otype : {1, 2}, path : PathsU \cup {<<>>}, oid : Oids, hash : {0, 1, 2}, exists : {0, 1},
            prior : {<<>>}]
Other == [op : {"discard"}, side : GSides, oid : Oids, path : PathsU]
         \cup [op : {"forget"}, side : GSides, oid : {1}, path : {<<10, 1>>}]      \* SyncState.forget(): everything goes, pending set included

Init == h = <<>>
Next == Len(h) < MaxLen /\ \E e \in Ev \cup Other : h' = Append(h, e)
Spec == Init /\ [][Next]_h
Emit == Len(h) = MaxLen => PrintT("@@" \o ToJson(h))
=============================================================================

----------------------------- MODULE Gen_Storage -----------------------------
(* Behaviour generator for Storage.tla: carries the call history `h` and prints every maximal   *)
(* history as JSON.  create picks the smallest id not live under the tag (canonical; the driver *)
(* maps specification ids to whatever the real backend returns).  Used exhaustively (small      *)
(* MaxLen) and with -simulate (long random behaviours).                                          *)
EXTENDS Storage, Json
CONSTANT MaxLen
VARIABLE h
gvars == <<rows, isOpen, res, h>>

MinFree(t) == CHOOSE i \in Ids \ Live(rows, t) : \A j \in Ids \ Live(rows, t) : i <= j

GenInit == StorageInit /\ h = <<>>
GenNext ==
  /\ Len(h) < MaxLen
  /\ \/ \E t \in Tags, v \in Vals : Ids \ Live(rows, t) # {} /\ Create(t, v, MinFree(t))
     \/ \E t \in Tags, i \in Ids, v \in Vals : Update(t, i, v)
     \/ \E t \in Tags, i \in Ids : Delete(t, i)
     \/ \E t \in Tags, i \in Ids : Read(t, i)
     \/ \E t \in Tags : ReadAll(t)
     \/ ReadAllTags
     \/ Reopen
  /\ h' = Append(h, res')
GenSpec == GenInit /\ [][GenNext]_gvars
Emit == Len(h) = MaxLen => PrintT("@@" \o ToJson(h))
=============================================================================

----------------------------- MODULE Gen_Runnable -----------------------------
(* Spec -> code: gated schedules for the real Runnable, enumerated from Runnable.tla.                     *)
(*                                                                                                        *)
(* The driver can hold a real thread at the entry of do() - twice: before its first instruction ("pre",     *)
(* the call is not yet logged: a thread preempted between the loop's flag check and the call) and right    *)
(* after the call was logged ("do": inside the work function) -, at the entry of interruptable_sleep(), at *)
(* entry and at the exit of wake() (also inside stop(): "between the statements of stop() separated by its *)
(* call to wake()"), at the entry of wait() (also inside stop()) and between controller calls; and during   *)
(* the start-up of the loop thread: the starter inside start() at the entry of Thread.start() ("thS": the  *)
(* thread object is assigned, no thread runs - only when a second controller exists that could act there)  *)
(* and the new thread once it has bootstrapped, before the first statement of run() ("boot": start() has    *)
(* returned or can return; the service is started, its loop thread has not run yet).  A thread             *)
(* that is released runs alone to its next gate, to the end of its call, to its death, or until it blocks  *)
(* (join on a live thread; the interrupt Event when the sleep was released in "block" mode).  This module  *)
(* is Runnable.tla under exactly that coarse scheduler: while some thread is running only that thread      *)
(* steps; when none is, the generator chooses a token - release a held thread, or let an idle controller   *)
(* make a call - and records it with the status of all threads at that moment (what the driver must see    *)
(* before it acts).  Outcomes of do() are chosen when do() is entered (token "do": the driver's script).   *)
(* Threads that resume because another thread unblocked them (a joiner after the loop died) touch no       *)
(* shared field afterwards, so their order against the running thread does not matter.                     *)
(* The loop's ordinary sleep (one of Sleeps, with the backoff parameters BMin / BMax / BMulP / BMulQ) is    *)
(* part of the schedule: the driver passes it to start(sleep=...).                                          *)
EXTENDS Runnable, Json
CONSTANTS MaxTok,
          PreBoot     \* with PreStarted: the initial state is the one right after the first start() has returned
                      \* while the new loop thread is still held before run() (gate "boot")
VARIABLES h,        \* tokens so far
          parked,   \* thread -> name of the gate it is held at ("" = not held)
          mode      \* how the loop's current sleep was released: "poll" (times out at once) / "block"
gvars == <<sh, lp, ac, ncalls, g, ga, bad, h, parked, mode>>

InSelfStop == lp.pc = "instop" /\ ac[0].pc # "idle"
LoopBlocked == lp.pc \in {"none", "created"} \/ (lp.pc = "sl2" /\ ~sh.flag /\ mode = "block")
GateThS == Ctls # {Owner}
ActorBlocked(a) == \/ ac[a].pc = "idle"
                   \/ (ac[a].pc = "wt2" /\ TState(ac[a].t) = "alive" /\ ac[a].kind # "waitT")
                   \/ (ac[a].pc = "sa8" /\ sh.tst = "new")
Blocked(t) == IF t = 0 THEN (IF InSelfStop THEN FALSE ELSE LoopBlocked) ELSE ActorBlocked(t)
Running(t) == parked[t] = "" /\ ~Blocked(t)
Runners == {t \in Actors : Running(t)}

Status == [t \in Actors |->
             IF parked[t] # "" THEN parked[t]
             ELSE IF t = 0 THEN (IF lp.pc = "none" THEN "dead" ELSE IF lp.pc = "created" THEN "unborn" ELSE "blocked")
             ELSE IF ac[t].pc = "idle" THEN "idle" ELSE "blocked"]

GenInit == /\ Init /\ h = <<>> /\ mode = "poll"
           /\ parked = [t \in Actors |-> ""]
GenInitBoot ==          \* Init with the loop thread of the first start() held at "boot"
  /\ PreStarted /\ PreBoot
  /\ sh = [stopping |-> FALSE, shutdown |-> FALSE, intr |-> 0, flag |-> FALSE, thread |-> 1, gen |-> 1, tst |-> "alive"]
  /\ \E s \in Sleeps : lp = LpInit("runE", BCfg(s))
  /\ ac = [a \in Actors |-> AIdle] /\ ncalls = 0
  /\ g = [GInit EXCEPT !.run = TRUE] /\ ga = GAInit(Actors) /\ bad = {}
  /\ h = <<>> /\ mode = "poll" /\ parked = [t \in Actors |-> IF t = 0 THEN "boot" ELSE ""]

Keep == UNCHANGED <<h, mode>>
Park(t, gate) == parked' = [parked EXCEPT ![t] = gate]
NoPark == UNCHANGED parked

\* one step of the running actor a (thread a, or thread 0 inside a self-stop)
ActorRun(a) ==
  \/ ActorSilent(a) /\ NoPark /\ Keep
  \/ AWkE(a) /\ Park(a, "wkE") /\ Keep
  \/ AWkX(a) /\ Park(a, "wkX") /\ Keep
  \/ AWtE(a) /\ Park(a, "wtE") /\ Keep
  \/ AThS(a) /\ (IF GateThS THEN Park(a, "thS") ELSE NoPark) /\ Keep
  \/ (\E r \in {"ok", "false", "exc"} : ARet(a, r)) /\ NoPark /\ Keep
  \/ a = 0 /\ ACall(0, ac[0].kind) /\ NoPark /\ Keep
LoopRun ==
  \/ LTop2 /\ (IF sh.shutdown THEN NoPark ELSE Park(0, "pre")) /\ Keep
  \/ LBoot /\ Park(0, "boot") /\ Keep
  \/ (LRunE \/ LR1 \/ LTop1 \/ LPerform \/ LDoRet \/ LChk1 \/ LChk2 \/ LSl2w \/ LSl3
      \/ LFin1 \/ LFin3 \/ LFin4 \/ LDie \/ LFinE \/ LDone \/ LExit) /\ NoPark /\ Keep
  \/ mode = "poll" /\ LSl2t /\ NoPark /\ Keep
  \/ \E o \in AllOutcomes : LDo(o) /\ Park(0, "do") /\ h' = Append(h, [k |-> "do", a |-> 0, x |-> o, pre |-> Status]) /\ UNCHANGED mode
  \/ LSleepE(Request(lp.bp, lp.b)) /\ Park(0, "sleep") /\ Keep
Run(t) == IF t = 0 THEN (IF InSelfStop THEN ActorRun(0) ELSE LoopRun) ELSE ActorRun(t)

MinRunner == CHOOSE t \in Runners : \A u \in Runners : t <= u

Token ==
  /\ Len(h) < MaxTok
  /\ \/ \E t \in Actors : /\ parked[t] # ""
                          /\ \E m \in (IF parked[t] = "sleep" THEN {"poll", "block"} ELSE {"poll"}) :
                               /\ h' = Append(h, [k |-> "rel", a |-> t, x |-> m, pre |-> Status])
                               /\ mode' = IF parked[t] = "sleep" THEN m ELSE mode
                          /\ parked' = [parked EXCEPT ![t] = ""]
                          /\ UNCHANGED vars
     \/ \E c \in Ctls, kd \in AllKinds :
          /\ ACall(c, kd)
          /\ h' = Append(h, [k |-> "call", a |-> c, x |-> kd, pre |-> Status])
          /\ UNCHANGED <<parked, mode>>

GenNext == IF Runners # {} THEN Run(MinRunner) ELSE Token
GenSpec == (IF PreBoot THEN GenInitBoot ELSE GenInit) /\ [][GenNext]_gvars

Settled == Runners = {}
CanToken == \/ \E t \in Actors : parked[t] # ""
            \/ \E c \in Ctls : ac[c].pc = "idle" /\ ncalls < MaxCalls
\* a schedule is emitted when it cannot be extended (token budget used up, or nothing left to choose)
Emit == (Settled /\ (Len(h) >= MaxTok \/ ~CanToken)) => PrintT("@@" \o ToJson([toks |-> h, fin |-> Status, sleep |-> lp.bp.norm]))
=============================================================================

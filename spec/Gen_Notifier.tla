----------------------------- MODULE Gen_Notifier -----------------------------
(* Behaviour generator for Notifier.tla.  Tokens: n(fail) raise the next notification (the handler will     *)
(* raise for it iff fail = 1), d one do() (direct mode only; thread mode: the service loop calls do()),     *)
(* s(f) stop(forever = f).  A history is emitted whenever the queue is empty again (direct mode) / always   *)
(* at the end (thread mode), so every sequence of at most MaxN notifications with every placement of the    *)
(* handler failures, the do() calls and one stop() is produced exactly once.                                 *)
EXTENDS Notifier, Json
VARIABLES h, fl
gnvars == <<q, raised, delivered, halted, stopret, h, fl>>

GNInit == NInit /\ h = <<>> /\ fl = <<>>
GNotify(f) == Notify /\ fl' = Append(fl, f) /\ h' = Append(h, [k |-> "n", f |-> f])
GDo == /\ ~Threaded /\ q # <<>>
       /\ Do(IF Head(q) = 0 THEN 0 ELSE fl[Head(q)])
       /\ h' = Append(h, [k |-> "d", f |-> 0]) /\ UNCHANGED fl
GStop(f) == /\ \A k \in 1..Len(h) : h[k].k # "s"       \* one stop() per history
            /\ Stop /\ h' = Append(h, [k |-> "s", f |-> f]) /\ UNCHANGED fl
GNNext == (\E f \in {0, 1} : GNotify(f)) \/ GDo \/ (\E f \in {0, 1} : GStop(f))
GNSpec == GNInit /\ [][GNNext]_gnvars
Emit == (Len(h) > 0 /\ (Threaded \/ q = <<>>)) => PrintT("@@" \o ToJson(h))
=============================================================================

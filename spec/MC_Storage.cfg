\* exhaustive design check of Storage.tla: 2 tags, 2 ids, 2 value classes
CONSTANTS
  Tags = {1, 2}
  Ids = {1, 2}
  Vals = {1, 2}
SPECIFICATION StorageSpec
INVARIANT TypeOK
PROPERTY TagIsolation
PROPERTY Frame
PROPERTY FreshId
PROPERTY UpdateMissingIsError
PROPERTY DeleteIdempotent
PROPERTY Durable
CHECK_DEADLOCK FALSE

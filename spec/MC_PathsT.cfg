\* design run (thorough), pairs and triples: all 8 conventions, every (p, q, r) with |p| <= 2, |q| <= 2, |r| <= 1
CONSTANTS
  Seps = {1, 2}
  Cases = {TRUE, FALSE}
  Wins = {TRUE, FALSE}
  Wins2 = {}
  LP = 2
  LQ = 2
  LR = 1
  Ext = {}
SPECIFICATION PathsSpec
INVARIANT DesignU
INVARIANT DesignB
INVARIANT DesignT
CHECK_DEADLOCK FALSE

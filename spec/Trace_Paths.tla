----------------------------- MODULE Trace_Paths -----------------------------
(* Code -> spec for C13.  A trace is a list of cases of one kind for one convention; a line carries the inputs   *)
(* chosen by the generator and the observation record `o` the driver obtained from the REAL helpers             *)
(* (results in the <<kind, ...>> form of Paths.tla).  For every line TLC                                        *)
(*   (a) evaluates each LAW of the property on the code's observation - a false law is recorded in register 1   *)
(*       as <<trace, line, "Law@SHAPE@EXC">> (a property violation);                                            *)
(*   (b) compares the code's observation with Obs*(...) computed by the operators of Paths.tla - a difference   *)
(*       is recorded as "NC:<field>@SHAPE@EXC" (a non-conformance, never a violation by itself).                *)
(* Total acceptance: nothing blocks.  SHAPE (computed here, from the inputs) is ONECHAR when some input has      *)
(* exactly one non-separator character, else OTHER; EXC names the first unexpected exception among the fields the law reads.      *)
(* For the cases on folders as spelled (kinds S, Y) SHAPE is the stratum of the spelling (Paths!SpellShape of   *)
(* the folder / of the two roots), or Paths!HeldTag for the root re-spelled with an empty relative part; every  *)
(* kind: Paths!DriveTag for the held input class (a U+0130 "drive" where drive letters exist and case is folded).  *)
(* At most Cap witnesses are kept per (clause string, convention) in one TLC run; the rest are counted.          *)
EXTENDS Paths, Json, IOUtils, TLC
VARIABLES tid, l
tvars == <<vc, vc2, vp, vq, vr, tid, l>>

Traces == JsonDeserialize(IOEnv.TRACE_FILE)
Tr     == Traces[tid]
Ev     == Tr[l]
Cap    == 3

CfgOf(j) == [sep |-> j.sep, cs |-> j.cs = 1, win |-> j.win = 1]
Conv(t)  == <<Traces[t][1].c, Traces[t][1].c2>>

NonSepCount(s) == Cardinality({i \in 1..Len(s) : ~IsSepCh(s[i])})
HeldLine == HeldIn(vc, {vp, vq, vr}) \/ HeldIn(vc2, {vp, vq, vr})        \* the held input class (Paths!DriveTag)
Shape ==
  CASE HeldLine -> DriveTag
    [] Ev.kind = "S" -> SpellShape(vc, vp)
    [] Ev.kind = "Y" -> SpellShape(vc, vp) \o "+" \o SpellShape(vc2, vr)
    [] OTHER -> IF \E s \in {Ev.p, Ev.q, Ev.r} : NonSepCount(s) = 1 THEN "ONECHAR" ELSE "OTHER"
\* the first unexpected exception among the fields `reads` of the code's observation
ExcTag(reads) ==
  LET codes == {Ev.o[f][2] : f \in {g \in DOMAIN Ev.o \cap reads : Ev.o[g][1] = 3}}
  IN IF 1 \in codes THEN "IndexError" ELSE IF 2 \in codes THEN "ValueError" ELSE IF 9 \in codes THEN "OtherError" ELSE "none"

ViolAs(clause, reads, shape) ==
  LET full == clause \o "@" \o shape \o "@" \o ExcTag(reads)
      cur  == TLCGet(1)
      same == {v \in cur : v[3] = full /\ Conv(v[1]) = Conv(tid)}
  IN IF Cardinality(same) < Cap THEN TLCSet(1, cur \cup {<<tid, l, full>>}) ELSE TLCSet(3, TLCGet(3) + 1)
Viol(clause, reads) == ViolAs(clause, reads, Shape)
Check(cond, clause, reads) == IF cond THEN TRUE ELSE Viol(clause, reads)
CheckAs(cond, clause, reads, shape) == IF cond THEN TRUE ELSE ViolAs(clause, reads, shape)

\* (b): field-by-field comparison with the specification's own observation
Conform(o, spec) ==
  IF o = spec THEN TRUE
  ELSE IF DOMAIN o # DOMAIN spec THEN Viol("Bridge", {})
  ELSE \A f \in {g \in DOMAIN spec : o[g] # spec[g]} : Viol("NC:" \o f, {f})

\* The state <<tid, l>> means: line l of trace tid is being judged; vc, vc2, vp, vq, vr are bound to its logged inputs.
Bound(e) == vc = CfgOf(e.c) /\ vc2 = CfgOf(e.c2) /\ vp = e.p /\ vq = e.q /\ vr = e.r
TraceInit ==
  /\ tid \in 1..Len(Traces)
  /\ l = 1
  /\ Bound(Traces[tid][1])
TraceNext ==
  /\ l < Len(Tr)
  /\ l' = l + 1
  /\ UNCHANGED tid
  /\ LET e == Tr[l + 1] IN vc' = CfgOf(e.c) /\ vc2' = CfgOf(e.c2) /\ vp' = e.p /\ vq' = e.q /\ vr' = e.r
TraceSpec == TraceInit /\ [][TraceNext]_tvars

\* Judging is done in a state predicate (cfg: INVARIANT Judge; always TRUE, failures go to the registers): TLC evaluates
\* the LET-bound sub-results of Obs* once per state there, but once per use inside an action (several times slower).
JU == /\ \A law \in LawsU : Check(HoldsU(law, vc, vp, Ev.o), law, Reads(law, 0))
      /\ Conform(Ev.o, ObsU(vc, vp))
JB == /\ \A law \in LawsB : Check(HoldsB(law, vc, vp, vq, Ev.o), law, Reads(law, 0))
      /\ Check(K(Ev.o.f) # 1 \/ Ev.o.sib = Str(V(Ev.o.f) \o vq), "Bridge", {})   \* the sibling really is folder + q
      /\ Conform(Ev.o, ObsB(vc, vp, vq))
JT == /\ \A law \in LawsT : Check(HoldsT(law, vc, vp, vq, vr, Ev.o), law, Reads(law, 0))
      /\ Conform(Ev.o, ObsT(vc, vp, vq, vr))
JX == /\ \A law \in LawsX, side \in {0, 1} : Check(HoldsX(law, side, vc, vc2, vp, vr, vq, Ev.o), law, Reads(law, side))
      /\ Conform(Ev.o, ObsX(vc, vc2, vp, vr, vq))
\* folders as spelled: vp (and vr) were handed to the helpers as they are
JS == /\ \A law \in LawsS : CheckAs(HoldsS(law, vc, vp, vq, vr, Ev.o), law, ReadsS(law),
                                   IF HeldS(law, vp, vq, vr) THEN HeldTag ELSE Shape)
      /\ Check(K(Ev.o.jf) # 1 \/ Ev.o.sib = Str(V(Ev.o.jf) \o vq), "Bridge", {})   \* the sibling really is join(folder) + q
      /\ Conform(Ev.o, ObsS(vc, vp, vq, vr))
JY == /\ \A law \in LawsY, side \in {0, 1} : Check(HoldsY(law, side, vc, vc2, vp, vr, vq, Ev.o), law, Reads(law, side))
      /\ Check(Ev.o.A = Str(vp) /\ Ev.o.B = Str(vr), "Bridge", {})                 \* the roots really are the spellings
      /\ Conform(Ev.o, ObsY(vc, vc2, vp, vr, vq))
Judge ==
  /\ CASE Ev.kind = "U" -> JU [] Ev.kind = "B" -> JB [] Ev.kind = "T" -> JT [] Ev.kind = "X" -> JX
        [] Ev.kind = "S" -> JS [] Ev.kind = "Y" -> JY
  /\ IF l = Len(Tr) THEN TLCSet(2, TLCGet(2) + 1) ELSE TRUE

ASSUME TLCSet(1, {}) /\ TLCSet(2, 0) /\ TLCSet(3, 0)
Report == PrintT("@@" \o ToJson([violations |-> TLCGet(1), completed |-> TLCGet(2), traces |-> Len(Traces),
                                 suppressed |-> TLCGet(3)]))
=============================================================================

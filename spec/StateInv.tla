------------------------------ MODULE StateInv ------------------------------
(***************************************************************************)
(* C08 / C11: the invariants of the sync-state table, stated over an          *)
(* OBSERVATION `ob` of the real SyncState (vh/sysdrv.py StateProjector):      *)
(*   ob.ents   sequence of entry records [id, sid, ig, s] where s[side] =      *)
(*             <<oid, path, hash, sync_hash, sync_path, exists, changed, otype>> *)
(*             (0 / <<>> = none; ids, oids, hashes numbered by first appearance) *)
(*   ob.oidx   the id index:   <<side, oid, entry id>>                          *)
(*   ob.pidx   the path index: <<side, path, oid, entry id>>                    *)
(*   ob.pend   the pending-changes set (entry ids), ob.dirty the dirty set      *)
(*   ob.rows   decoded storage rows [sid, ig, s]                                *)
(*   ob.reload lookups and pending set of a fresh state loaded from storage     *)
(* The same operators are the invariants of SyncState.tla (design level).       *)
(***************************************************************************)
EXTENDS Naturals, Sequences, FiniteSets

SeqSet(q) == {q[i] : i \in DOMAIN q}
Ents(ob)  == SeqSet(ob.ents)
SOid(e, s)  == e.s[s][1]
SPath(e, s) == e.s[s][2]
SCh(e, s)   == e.s[s][7]
Trash(e)    == SOid(e, 1) = 0 /\ SOid(e, 2) = 0
Sd == {1, 2}

\* every live entry is found under its current id and its current path on each side
FoundByOid(ob)  == \A e \in Ents(ob) : \A s \in Sd : SOid(e, s) # 0 => <<s - 1, SOid(e, s), e.id>> \in SeqSet(ob.oidx)
FoundByPath(ob) == \A e \in Ents(ob) : \A s \in Sd :
                     (SOid(e, s) # 0 /\ Len(SPath(e, s)) > 0) => <<s - 1, SPath(e, s), SOid(e, s), e.id>> \in SeqSet(ob.pidx)
\* no id or (path, id) slot leads to an entry that no longer carries it
NoStaleOidSlot(ob)  == \A x \in SeqSet(ob.oidx) : \E e \in Ents(ob) : e.id = x[3] /\ SOid(e, x[1] + 1) = x[2]
NoStalePathSlot(ob) == \A x \in SeqSet(ob.pidx) : \E e \in Ents(ob) :
                         e.id = x[4] /\ SPath(e, x[1] + 1) = x[2] /\ SOid(e, x[1] + 1) = x[3]
\* at most one live entry owns an id per side
OneOwnerPerOid(ob) == \A e1, e2 \in Ents(ob) : \A s \in Sd :
                        (e1.id # e2.id /\ SOid(e1, s) # 0) => SOid(e1, s) # SOid(e2, s)
\* the pending set contains exactly the entries that have a change flag with an id
HasPending(e) == \E s \in Sd : SCh(e, s) = 1 /\ SOid(e, s) # 0
PendingExact(ob) == SeqSet(ob.pend) = {e.id : e \in {x \in Ents(ob) : HasPending(x)}}

\* C08: what storage holds is exactly the live, non-trash entries
RowOf(e) == [sid |-> e.sid, ig |-> e.ig, s |-> e.s]
PersistExact(ob) == SeqSet(ob.rows) = {RowOf(e) : e \in {x \in Ents(ob) : ~Trash(x)}}
\* C08: a state loaded from storage answers the same lookups and has the same pending set
ReloadSame(ob) ==
  /\ ob.reload.ok = 1
  /\ SeqSet(ob.reload.oidx) = {<<x[1], x[2], (CHOOSE e \in Ents(ob) : e.id = x[3]).sid>> : x \in SeqSet(ob.oidx)}
  /\ SeqSet(ob.reload.pidx) = {<<x[1], x[2], x[3], (CHOOSE e \in Ents(ob) : e.id = x[4]).sid>> : x \in SeqSet(ob.pidx)}
  /\ SeqSet(ob.reload.pend) = {(CHOOSE e \in Ents(ob) : e.id = n).sid : n \in SeqSet(ob.pend)}
=============================================================================

-------------------------------- MODULE SysMC --------------------------------
(* Design-level check of the contract in Sys.tla: an ABSTRACT engine that may issue any provider   *)
(* call the guards allow, interleaved with arbitrary user operations.  TLC shows that the guards   *)
(* (LastCopy, NoInventedContent, InsideRoot) make the loss / confinement invariants hold whatever  *)
(* the engine does - this pins the meaning of C02 / C12 to formulas before any code is observed.   *)
EXTENDS Sys

\* ---- an abstract engine for the design-level check (MC_Sys): any call the guards allow --------------
CONSTANTS Paths, Cids, MaxUser, MaxEng
VARIABLES nuser, neng
mvars == <<tr, written, killed, dropped, merged, expect, exOK, chg, anc, origin, win, tags, nuser, neng>>

Ops == [k : {"create", "write"}, p : Paths, q : {<<>>}, c : Cids]
       \cup [k : {"delete", "rmdir", "mkdir"}, p : Paths, q : {<<>>}, c : {0}]
       \cup [k : {"rename"}, p : Paths, q : Paths, c : {0}]

MCInit ==
  /\ tr = << (<<ROOT>> :> DIR), (<<ROOT>> :> DIR) >>
  /\ written = {} /\ killed = {} /\ dropped = {} /\ merged = {}
  /\ expect = (<<ROOT>> :> DIR) /\ exOK = TRUE
  /\ chg = <<{}, {}>> /\ anc = <<{}, {}>> /\ origin = 0 /\ nuser = 0
  /\ win = EmptyWin /\ tags = {} /\ neng = 0

MCUser(s, op) ==
  /\ nuser < MaxUser /\ nuser' = nuser + 1
  /\ Inside(op.p) /\ (op.k = "rename" => Inside(op.q))
  /\ op.c \notin written
  /\ Applies(tr[s], op)
  /\ tr' = [tr EXCEPT ![s] = Apply(tr[s], op)]
  /\ UserEffect(s, op, Apply(tr[s], op))
  /\ UNCHANGED <<dropped, merged, neng>>

EngineFrame == /\ UNCHANGED <<written, killed, dropped, merged, expect, exOK, chg, anc, origin, win, tags, nuser>>
               /\ neng < MaxEng /\ neng' = neng + 1

MCDelete(s, p) ==
  /\ CanDelete(tr[s], p) /\ InsideOK(p) /\ LastCopyOK(tr, s, p, {})
  /\ tr' = [tr EXCEPT ![s] = Delete(tr[s], p)] /\ EngineFrame
MCCreate(s, p, c) ==
  /\ CanCreate(tr[s], p) /\ InsideOK(p) /\ ContentOK(c)
  /\ tr' = [tr EXCEPT ![s] = Create(tr[s], p, c)] /\ EngineFrame
MCUpload(s, p, c) ==
  /\ CanWrite(tr[s], p) /\ InsideOK(p) /\ ContentOK(c) /\ LastCopyOK(tr, s, p, {})
  /\ tr' = [tr EXCEPT ![s] = Write(tr[s], p, c)] /\ EngineFrame
MCRename(s, p, q) ==
  /\ CanRename(tr[s], p, q) /\ InsideOK(p) /\ InsideOK(q)
  /\ tr' = [tr EXCEPT ![s] = Rename(tr[s], p, q)] /\ EngineFrame
MCMkdir(s, p) ==
  /\ CanMkdir(tr[s], p) /\ InsideOK(p)
  /\ tr' = [tr EXCEPT ![s] = Mkdir(tr[s], p)] /\ EngineFrame

MCNext ==
  \/ \E s \in Sides, op \in Ops : MCUser(s, op)
  \/ \E s \in Sides, p \in Paths : MCDelete(s, p) \/ MCMkdir(s, p)
  \/ \E s \in Sides, p \in Paths, c \in Cids : MCCreate(s, p, c) \/ MCUpload(s, p, c)
  \/ \E s \in Sides, p \in Paths, q \in Paths : MCRename(s, p, q)
MCSpec == MCInit /\ [][MCNext]_mvars
MCPaths == { <<10, 1>>, <<10, 3>>, <<10, 3, 1>> }
\* the invariants talk about trees and ledger only; tags / windows / expectations are observation variables
MCView == <<tr, written, killed, dropped, merged, nuser, neng>>

\* what the guards buy (checked by TLC on the abstract engine): invariants of every reachable state
InvNoLoss      == NoLoss(tr, {})
InvNoInvented  == NoInvented(tr)
InvWellFormed  == WellFormed(tr[1]) /\ WellFormed(tr[2])
InvLedger      == killed \subseteq written /\ merged \cap written = {}
\* nothing outside the roots ever changes (there is nothing there to begin with in MCInit)
InvConfined    == \A s \in Sides : \A p \in DOMAIN tr[s] : p = <<ROOT>> \/ Inside(p)
=============================================================================

---------------------------- MODULE Trace_HCache ----------------------------
(* Trace validation for C19.  A trace is the sequence of calls executed on a real HierarchicalCache;   *)
(* every judged line carries what the harness OBSERVED after the call (it does not interpret it):       *)
(*   c   the call  [op, p, q, i, t, m, k]                      j   1 = judged line (observation present) *)
(*   x   1 = the call raised                                   cy  1 = the structural walk met a node twice *)
(*   T   structural walk from cache._root over node.children:  <<path, oid, type, meta, ok>>              *)
(*         ok = 1 iff node.name is its key in the parent's dict and node.parent is that parent            *)
(*   I   keys of cache._oid_to_node (root excluded):  <<key, found, path, reach, noid>>   found = full_path() *)
(*         gave a path, reach = that very node object sits at that path in T, noid = the node's own oid   *)
(*   P   per path of the universe:  <<path, get_oid, get_type, get_metadata, listdir, f, get_path(get_oid)>> *)
(*   D   per id of the universe:    <<id, f, get_path, get_oid(get_path), get_type(oid=), get_metadata(oid=), listdir(oid=)>> *)
(*   W   list(cache.walk())                                                                               *)
(* TLC replays the calls on the reference dictionary of HCache.tla and evaluates the clauses of the      *)
(* property on the observed structure.  Total: a failing clause is recorded (register 1) with the hazard *)
(* tags of the call, never blocks.  Only the FIRST failing line of a trace is judged: until then the     *)
(* code's observable state equals the model's, so the tags computed on the model state describe the call *)
(* that broke it; afterwards the two have diverged and further differences are consequences.            *)
EXTENDS HCache, Json, IOUtils
VARIABLES tid, l, bad
tvars == <<node, tid, l, bad>>

Traces == JsonDeserialize(IOEnv.TRACE_FILE)
Tr     == Traces[tid]
Ev     == Tr[l]

Rng(s) == {s[k] : k \in 1..Len(s)}
\* the observation of the current line as sets of records (bound once per line by Failing)
TSet == {[p |-> e[1], oid |-> e[2], type |-> e[3], meta |-> e[4], ok |-> e[5]] : e \in Rng(Ev.T)}
ISet == {[oid |-> e[1], found |-> e[2], p |-> e[3], reach |-> e[4], noid |-> e[5]] : e \in Rng(Ev.I)}
PSet == {[p |-> e[1], oid |-> e[2], type |-> e[3], meta |-> e[4], ls |-> e[5], rtf |-> e[6], rtp |-> e[7]] : e \in Rng(Ev.P)}
DSet == {[id |-> e[1], found |-> e[2], p |-> e[3], rto |-> e[4], type |-> e[5], meta |-> e[6], ls |-> e[7]] : e \in Rng(Ev.D)}
Plain(TS) == {[p |-> Norm(r.p), oid |-> r.oid, type |-> r.type, meta |-> r.meta] : r \in TS}

\* ---- clauses on the observed structure alone (coherence) -----------------------------------------------
C_TreeShape(TS) ==
  /\ Ev.cy = 0
  /\ Cardinality({r.p : r \in TS}) = Len(Ev.T)
  /\ \A r \in TS : r.ok = 1
  /\ TreeShapeS({[p |-> r.p, oid |-> r.oid, type |-> r.type, meta |-> r.meta] : r \in TS})
C_NoSharedId(TS) == NoSharedIdS(TS)
C_IdMapReachable(TS, IM) == \A e \in IM : /\ e.found = 1 /\ e.reach = 1 /\ e.noid = e.oid
                                          /\ \E r \in TS : r.p = e.p /\ r.oid = e.oid
C_IdMapComplete(TS, IM)  == \A r \in TS : r.oid # 0 => \E e \in IM : e.oid = r.oid /\ e.p = r.p /\ e.reach = 1
C_RoundTrip(PS, DS) ==
  /\ \A d \in DS : d.found = 1 => d.rto = d.id
  /\ \A e \in PS : e.oid # 0 => e.rtf = 1 /\ Norm(e.rtp) = Norm(e.p)

\* ---- clauses relating the observation to the reference dictionary (pre = before the call, post = after) --
\* everything the dictionary forgot (a deleted or replaced folder's descendants in particular) is forgotten
C_DescendantsForgotten(TS, IM, DS, pre, post) ==
  LET known == {e.oid : e \in IM} \cup ({r.oid : r \in TS} \ {0}) \cup {d.id : d \in {e \in DS : e.found = 1}}
  IN /\ (IdsOf(pre) \ IdsOf(post)) \cap known = {}
     /\ \A r \in TS : Norm(r.p) \notin (Live(pre) \ Live(post))
C_SubtreeMoved(TS, pre, c) ==
  c.op = "rename" /\ Exists(pre, Norm(c.p)) =>
    \A q \in Live(pre) : IsPrefix(Norm(c.p), q) =>
       \E r \in TS : /\ Norm(r.p) = Norm(c.q) \o Suffix(Norm(c.p), q)
                     /\ r.oid = pre[q].oid /\ r.type = pre[q].type /\ r.meta = pre[q].meta
C_Structure(TS, post) == Plain(TS) = AsSet(post)
ByOid(post, i) == IF HasPath(post, i) THEN post[GetPath(post, i)] ELSE Rec(0, 0, NoMeta)
C_GetOid(PS, post)  == \A e \in PS : e.oid = GetOid(post, e.p)
C_GetType(PS, DS, post) == /\ \A e \in PS : e.type = GetType(post, e.p)
                           /\ \A d \in DS : d.type = ByOid(post, d.id).type
C_GetMeta(PS, DS, post) == /\ \A e \in PS : e.meta = GetMeta(post, e.p)
                           /\ \A d \in DS : d.meta = ByOid(post, d.id).meta
C_ListDir(PS, DS, post) ==
  /\ \A e \in PS : {Fold(x) : x \in Rng(e.ls)} = ListDir(post, e.p) /\ Len(e.ls) = Cardinality(ListDir(post, e.p))
  /\ \A d \in DS : {Fold(x) : x \in Rng(d.ls)} = (IF HasPath(post, d.id) THEN ListDirN(post, GetPath(post, d.id)) ELSE {})
C_GetPath(DS, post) == \A d \in DS : /\ d.found = (IF HasPath(post, d.id) THEN 1 ELSE 0)
                                     /\ d.found = 1 /\ HasPath(post, d.id) => Norm(d.p) = GetPath(post, d.id)
C_Walk(post)    == {Norm(p) : p \in Rng(Ev.W)} = WalkAll(post) /\ Len(Ev.W) = Cardinality(WalkAll(post))

ArgPaths == RawPaths \cup {<<>>}
ValidCall(c) == /\ c.op \in {"create", "mkdir", "rename", "delete_path", "delete_oid", "set_oid", "update", "set_meta_path", "set_meta_oid"}
                /\ c.p \in ArgPaths /\ c.q \in ArgPaths /\ c.i \in Ids \cup {0} /\ c.t \in {0, FILE, DIR} /\ c.m \in Metas \cup {0} /\ c.k \in {0, 1}
                /\ (c.op \in {"delete_oid", "set_meta_oid"}) = (Len(c.p) = 0)
                /\ (c.op = "rename") = (Len(c.q) > 0)
                /\ c.op \in {"set_oid", "update"} => c.t # 0
                /\ c.op \in {"create", "set_oid", "delete_oid", "set_meta_oid"} => c.i # 0
\* the harness must have observed the whole universe, and the call must be one of the specification's
HarnessOK(PS, DS, pre, c) == /\ {e.p : e \in PS} = RawPaths /\ {d.id : d \in DS} = Ids
                             /\ ValidCall(c) /\ Fits(pre, c)

Failing(pre, c, post) ==
  LET TS == TSet  IM == ISet  PS == PSet  DS == DSet
      pure == (IF C_TreeShape(TS) THEN {} ELSE {"TreeShape"})
         \cup (IF C_NoSharedId(TS) THEN {} ELSE {"NoSharedId"})
         \cup (IF C_IdMapReachable(TS, IM) THEN {} ELSE {"IdMapReachable"})
         \cup (IF C_IdMapComplete(TS, IM) THEN {} ELSE {"IdMapComplete"})
         \cup (IF C_RoundTrip(PS, DS) THEN {} ELSE {"RoundTrip"})
      rel  == (IF C_DescendantsForgotten(TS, IM, DS, pre, post) THEN {} ELSE {"DescendantsForgotten"})
         \cup (IF C_SubtreeMoved(TS, pre, c) THEN {} ELSE {"SubtreeMoved"})
         \cup (IF C_Structure(TS, post) THEN {} ELSE {"StructureAgrees"})
         \cup (IF C_GetOid(PS, post) THEN {} ELSE {"LookupsAgree.get_oid"})
         \cup (IF C_GetType(PS, DS, post) THEN {} ELSE {"LookupsAgree.get_type"})
         \cup (IF C_GetMeta(PS, DS, post) THEN {} ELSE {"LookupsAgree.get_metadata"})
         \cup (IF C_ListDir(PS, DS, post) THEN {} ELSE {"LookupsAgree.listdir"})
         \cup (IF C_GetPath(DS, post) THEN {} ELSE {"LookupsAgree.get_path"})
         \cup (IF C_Walk(post) THEN {} ELSE {"LookupsAgree.walk"})
  IN IF ~HarnessOK(PS, DS, pre, c) THEN {"HARNESS"}
     ELSE IF Ev.x = 1 THEN {"NoException"} \cup pure     \* the call did not complete: only coherence is judged
     ELSE pure \cup rel

TraceInit == /\ tid \in 1..Len(Traces)
             /\ l = 1
             /\ bad = FALSE
             /\ node = Empty

TraceNext ==
  /\ l <= Len(Tr)
  /\ LET c    == Call(Ev.c.op, Ev.c.p, Ev.c.q, Ev.c.i, Ev.c.t, Ev.c.m, Ev.c.k)
         post == IF ValidCall(c) /\ Fits(node, c) THEN Eff(node, c) ELSE node
         F    == IF bad \/ Ev.j = 0 THEN {} ELSE Failing(node, c, post)
     IN /\ IF F = {} THEN TRUE
           ELSE TLCSet(1, TLCGet(1) \cup {<<tid, l, <<f, Tags(node, c)>>>> : f \in F})
        /\ bad' = (bad \/ F # {})
        /\ node' = post
  /\ IF l = Len(Tr) THEN TLCSet(2, TLCGet(2) + 1) ELSE TRUE
  /\ l' = l + 1
  /\ UNCHANGED tid

TraceSpec == TraceInit /\ [][TraceNext]_tvars

ASSUME TLCSet(1, {}) /\ TLCSet(2, 0)
Report == PrintT("@@" \o ToJson([violations |-> TLCGet(1), completed |-> TLCGet(2), traces |-> Len(Traces)]))
=============================================================================

\* (the check writes its own copies with other bounds; Wins = {TRUE} adds ':' to the alphabet)
CONSTANTS
  Seps = {1}
  Cases = {TRUE}
  Wins = {FALSE}
  Wins2 = {}
  LP = 2
  LQ = 1
  LR = 0
  Ext = {}
SPECIFICATION PathsSpec
INVARIANT Emit
CHECK_DEADLOCK FALSE

\* EXPECTED VIOLATION of NoStopOrderWindow: code as found, stop(forever=True) on a running service; the loop leaves between stopping = True and shutdown = True
CONSTANTS
  Ctls = {1}
  Owner = 1
  OpKinds = {"stopTW"}
  Outcomes = {"did"}
  MaxCalls = 1
  MaxDo = 0
  UseUntil = FALSE
  PreStarted = TRUE
  FixedStopOrder = 0
  ResetInRun = FALSE
  BMin = 4
  BMax = 18
  BMulP = 3
  BMulQ = 2
  Sleeps = {8}
  PauseMax = FALSE
SPECIFICATION Spec
INVARIANT NoStopOrderWindow
CHECK_DEADLOCK FALSE

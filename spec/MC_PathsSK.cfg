\* design run (quick): folder laws on the 14 listed re-spellings (Spell) of join(p) and join(r), the 4 conventions without
\* drive letters, |p| <= 1, |q| <= 1, |r| <= 1 (all 8 conventions and two-name folders: MC_PathsST.cfg)
CONSTANTS
  Seps = {1, 2}
  Cases = {TRUE, FALSE}
  Wins = {FALSE}
  Wins2 = {}
  LP = 1
  LQ = 1
  LR = 1
  Ext = {}
SPECIFICATION PathsSpec
INVARIANT DesignSSpell
CHECK_DEADLOCK FALSE

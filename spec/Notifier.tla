------------------------------- MODULE Notifier -------------------------------
(***************************************************************************)
(* C18, second half.  cloudsync.notification.NotificationManager: a FIFO    *)
(* queue drained by the service loop's do(); the handler is called for each *)
(* notification, None (0 here) is the stop marker.                          *)
(*                                                                          *)
(*   Notify(i)   notify(): the item is appended                             *)
(*   Do(fail)    one do(): takes the head; a notification goes to the       *)
(*               handler (which may raise: fail), the marker stops the loop *)
(*   Stop        stop(): appends the marker (and stops the service loop)    *)
(*   StopRet     stop() has returned (thread mode: the loop thread is gone) *)
(*                                                                          *)
(* Notifications are numbered in the order they are raised (ids 1, 2, ...). *)
(***************************************************************************)
EXTENDS Naturals, Sequences, FiniteSets, TLC
CONSTANTS MaxN,        \* notifications raised at most
          Threaded     \* TRUE: do() is called by the service loop (stops calling after the marker / stop())
                       \* FALSE: the test calls do() itself whenever the queue is not empty

VARIABLES q,           \* the queue: ids, 0 = marker
          raised,      \* number of notifications raised so far (ids 1..raised)
          delivered,   \* sequence of [id, fail] in the order the handler was called
          halted,      \* thread mode: the loop has seen the stop request and will not call do() again
          stopret      \* stop() has returned
nvars == <<q, raised, delivered, halted, stopret>>

Ids(d) == [k \in 1..Len(d) |-> d[k].id]
SeqSet(s) == {s[k] : k \in 1..Len(s)}

\* ---- clauses as pure operators (shared with Trace_Notifier) -----------------------------------------
\* the handler is called with notification i now: which clauses does that falsify?
DeliverBad(d, n, i, afterStop) ==
  (IF i \in SeqSet(Ids(d)) THEN {"ExactlyOnce"}
   ELSE IF i # Len(d) + 1 THEN {"InOrder"} ELSE {})
  \cup (IF afterStop THEN {"NothingAfterStop"} ELSE {})
\* everything raised so far has had its turn (the queue was drained): what is missing?
DrainBad(d, n) ==
  LET got == SeqSet(Ids(d))
      missing == (1..n) \ got IN
  IF missing = {} THEN {}
  ELSE LET first == CHOOSE m \in missing : \A x \in missing : m <= x IN
       IF \E k \in 1..Len(d) : d[k].fail = 1 /\ d[k].id < first
         THEN {"HandlerFailureDoesNotStopDelivery"} ELSE {"ExactlyOnce"}

NInit == q = <<>> /\ raised = 0 /\ delivered = <<>> /\ halted = FALSE /\ stopret = FALSE

Notify == /\ raised < MaxN
          /\ raised' = raised + 1 /\ q' = Append(q, raised + 1)
          /\ UNCHANGED <<delivered, halted, stopret>>
Do(fail) ==
  /\ q # <<>> /\ ~halted
  /\ q' = Tail(q)
  /\ IF Head(q) = 0
       THEN delivered' = delivered /\ halted' = Threaded      \* marker: the loop stops itself
       ELSE delivered' = Append(delivered, [id |-> Head(q), fail |-> fail]) /\ UNCHANGED halted
  /\ UNCHANGED <<raised, stopret>>
\* stop(): the marker is queued; in thread mode the loop is also told to stop and may notice at any time
Stop == /\ ~stopret /\ 0 \notin SeqSet(q)
        /\ q' = Append(q, 0)
        /\ UNCHANGED <<raised, delivered, halted, stopret>>
Notice == Threaded /\ 0 \in SeqSet(q) /\ ~halted /\ halted' = TRUE /\ UNCHANGED <<q, raised, delivered, stopret>>
StopRet == /\ ~stopret /\ (Threaded => halted) /\ (0 \in SeqSet(q) \/ halted)
           /\ stopret' = TRUE /\ UNCHANGED <<q, raised, delivered, halted>>

NNext == Notify \/ (\E f \in {0, 1} : Do(f)) \/ Stop \/ Notice \/ StopRet
NSpec == NInit /\ [][NNext]_nvars

\* ---- properties of the design ------------------------------------------------------------------------
TypeOK == raised \in 0..MaxN /\ Len(delivered) <= raised
\* delivered is exactly the first Len(delivered) notifications, in the order raised, each once
InOrder     == \A k \in 1..Len(delivered) : delivered[k].id = k
ExactlyOnce == /\ Cardinality(SeqSet(Ids(delivered))) = Len(delivered)
               /\ (SeqSet(q) \subseteq {0} /\ ~(Threaded /\ halted) /\ 0 \notin SeqSet(q)) => DrainBad(delivered, raised) = {}
\* a handler failure changes nothing for the next do(): the next notification in the queue is delivered
HandlerFailureDoesNotStopDelivery ==
  [][\A f \in {0, 1} : (q # <<>> /\ Head(q) # 0 /\ ~halted /\ Len(delivered) > 0 /\ delivered[Len(delivered)].fail = 1)
        => ENABLED Do(f)]_nvars
NothingAfterStop == [][(Threaded /\ stopret) => delivered' = delivered]_nvars
=============================================================================

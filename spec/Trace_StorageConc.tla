-------------------------- MODULE Trace_StorageConc --------------------------
(* C09, concurrent callers.  A recorded history of call/return events (ordered by a sequence   *)
(* number taken under the recorder's lock) of several threads using one backend is accepted iff *)
(* every call can be given a linearisation point between its call and its return such that      *)
(* every result is the one Storage.tla gives at that point.  The linearisation step `Lin` is a  *)
(* silent action; TLC searches its placement.  A lost write has no linearisation.               *)
EXTENDS Storage, Json, IOUtils
CONSTANT Threads
VARIABLES tid, l, pend, lin
cvars == <<rows, isOpen, res, tid, l, pend, lin>>

Traces == JsonDeserialize(IOEnv.TRACE_FILE)
Tr == Traces[tid]
Ev == Tr[l]
T  == 1            \* the single tag used by the concurrent driver
None == [op |-> "none"]
SeqToSet(s) == {s[k] : k \in 1..Len(s)}

CInit ==
  /\ tid \in 1..Len(Traces) /\ l = 1
  /\ StorageInit
  /\ pend = [th \in Threads |-> None]
  /\ lin = [th \in Threads |-> None]

\* the call is logged before the backend is entered
TCall ==
  /\ l <= Len(Tr) /\ Ev.ev = "call"
  /\ pend[Ev.th].op = "none"
  /\ pend' = [pend EXCEPT ![Ev.th] = [op |-> Ev.op, id |-> Ev.id, val |-> Ev.val]]
  /\ lin' = [lin EXCEPT ![Ev.th] = None]
  /\ l' = l + 1
  /\ UNCHANGED <<rows, isOpen, res, tid>>

\* silent: the call of thread th takes effect now
Lin(th) ==
  /\ pend[th].op # "none" /\ lin[th].op = "none"
  /\ LET p == pend[th] IN
       CASE p.op = "create" -> /\ p.id \notin Live(rows, T)
                               /\ rows' = CreateEff(rows, T, p.id, p.val)
                               /\ lin' = [lin EXCEPT ![th] = [op |-> "create", val |-> 0, m |-> {}]]
         [] p.op = "update" -> /\ rows' = UpdateEff(rows, T, p.id, p.val)
                               /\ lin' = [lin EXCEPT ![th] = [op |-> "update", val |-> IF UpdateOK(rows, T, p.id) THEN 1 ELSE 0, m |-> {}]]
         [] p.op = "delete" -> /\ rows' = DeleteEff(rows, T, p.id)
                               /\ lin' = [lin EXCEPT ![th] = [op |-> "delete", val |-> 0, m |-> {}]]
         [] p.op = "read"   -> /\ rows' = rows
                               /\ lin' = [lin EXCEPT ![th] = [op |-> "read", val |-> ReadRes(rows, T, p.id), m |-> {}]]
         [] p.op = "read_all" -> /\ rows' = rows
                                 /\ lin' = [lin EXCEPT ![th] = [op |-> "read_all", val |-> 0, m |-> ReadAllRes(rows, T)]]
  /\ UNCHANGED <<isOpen, res, tid, l, pend>>

\* the return is logged after the backend returned; the logged result must be the linearised one
TRet ==
  /\ l <= Len(Tr) /\ Ev.ev = "ret"
  /\ lin[Ev.th].op = Ev.op
  /\ CASE Ev.op = "update" -> lin[Ev.th].val = Ev.val
       [] Ev.op = "read" -> lin[Ev.th].val = Ev.val
       [] Ev.op = "read_all" -> lin[Ev.th].m = SeqToSet(Ev.m)
       [] OTHER -> TRUE
  /\ pend' = [pend EXCEPT ![Ev.th] = None]
  /\ lin' = [lin EXCEPT ![Ev.th] = None]
  /\ l' = l + 1
  /\ IF l = Len(Tr) THEN TLCSet(1, TLCGet(1) \cup {<<tid, 0, "Completed">>}) ELSE TRUE
  /\ UNCHANGED <<rows, isOpen, res, tid>>

CNext == TCall \/ TRet \/ \E th \in Threads : Lin(th)
CSpec == CInit /\ [][CNext]_cvars

ASSUME TLCSet(1, {})
Report == PrintT("@@" \o ToJson([violations |-> TLCGet(1), completed |-> Cardinality(TLCGet(1)), traces |-> Len(Traces)]))
=============================================================================

\* design run, code as found, two controllers against a running service
CONSTANTS
  Ctls = {1, 2}
  Owner = 1
  OpKinds = {"start", "stopTW", "stopTN", "stopFW", "wake", "wait"}
  Outcomes = {"did"}
  MaxCalls = 2
  MaxDo = 0
  UseUntil = FALSE
  PreStarted = TRUE
  FixedStopOrder = 0
  ResetInRun = FALSE
  BMin = 4
  BMax = 18
  BMulP = 3
  BMulQ = 2
  Sleeps = {8}
  PauseMax = FALSE
SPECIFICATION Spec
INVARIANT TypeOK
INVARIANT BackoffLaw
INVARIANT ClearOnSuccess
INVARIANT BackoffState
INVARIANT NoDoAfterStopReturned
INVARIANT StopCanReturn
INVARIANT DoneExactlyOnceIfFinal
INVARIANT NoRestartAfterFinalStop
INVARIANT SurvivesAnythingSeen
PROPERTY SurvivesAnything
CHECK_DEADLOCK FALSE

CONSTANTS
  MaxEnts = 1
  Times = {0}
  Prios = {1}
  Ages = {0}
  Nows = {0}
SPECIFICATION TSpec
POSTCONDITION Report
CHECK_DEADLOCK FALSE

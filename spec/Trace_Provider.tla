--------------------------- MODULE Trace_Provider ---------------------------
(* Trace validation for C16.  A trace is what one REAL provider did for one call sequence:           *)
(*   line 1     [op |-> "init", filt, obs, ...]             observation of the fresh provider          *)
(*   call lines [op, p, x, c, exc, rid, rh, ob, obs, evs, es]  the call, its result (exception class  *)
(*              or returned id / hash), the full observation after it (ob = 1; ob = 0: not observed    *)
(*              here, because the same call sequence up to this call is another trace's last call),    *)
(*              the events drained after it                                                             *)
(*   last line  [op |-> "connect_other", hasid, exc, conn]  reconnecting under another identity        *)
(* An IDENTITY trace is what one real provider did for one sequence of logins (ProviderIdentity.tla):  *)
(*   line 1     [op |-> "idinit", conn, cid]                a provider that was never connected          *)
(*   call lines [op |-> "connect" | "disconnect" | "reconnect" | "setcreds" | "bindforeign", j, exc,     *)
(*               conn, cid]   the call (j: identity of the credentials passed / 0), its outcome (0 or    *)
(*              the exception class), `connected` and connection_id (as an identity code, 0 = None)     *)
(*              after it.  setcreds (set_creds) and bindforeign (the harness stores the connection_id   *)
(*              of identity j, as the repository's tests do with "invalid") set up the initial states   *)
(*              of the design; they are not judged.                                                      *)
(* The calls are replayed on ProviderModel and every clause of the property is evaluated on the CODE's *)
(* answers.  Total: a failing clause is recorded (register 1) and the trace goes on with the           *)
(* specification's effect; once the code's TREE has been seen to differ from the model (ErrorClass,    *)
(* QueriesAgree, Id clauses) the remaining lines of that trace are consumed without judging them,      *)
(* because the model no longer describes the provider's state.                                          *)
(*                                                                                                      *)
(* obs = [P |-> per-path answers  [p, ex, f, oid, t, rp, h, sz],                                        *)
(*        O |-> per-id answers    [oid, ex, f, t, rp, h, ho, sz, de, dc, le, ls |-> <<[oid, n, t, h]>>], *)
(*              (h: info_oid(id).hash, ho: hash_oid(id))                                                 *)
(*        hd |-> hash_data(bytes of content c) for every c of AllContents]                               *)
(*                                                                 (hashes are small integers, 0 = none) *)
(* exception classes: 0 none, 1 exists, 2 not found, 4 name error, 5 token error, 9 anything else.      *)
EXTENDS ProviderModel, ProviderIdentity, Json, IOUtils
VARIABLES tid, l, ok, hs
tvars == <<fs, nextOid, feed, idn, tid, l, ok, hs>>

Traces == JsonDeserialize(IOEnv.TRACE_FILE)
Tr     == Traces[tid]
Ev     == Tr[l]
Filt   == Tr[1].filt = 1

Viol(clause)     == TLCSet(1, TLCGet(1) \cup {<<tid, l, clause>>})
Check(c, clause) == IF c THEN TRUE ELSE Viol(clause)
Range(s)  == {s[k] : k \in 1..Len(s)}
B(c)      == IF c THEN 1 ELSE 0
NormOid(x) == IF OidIsPath THEN Norm(x) ELSE x
ExcOf(e)  == IF e = NOTEMPTY THEN 1 ELSE e
TOKENERR  == 5

\* ---- one pass over the observation ------------------------------------------------------------------
\* Every answer of the provider is compared with the tree once.  The result is a set of small tuples:
\*   <<0, k, 0>>  query kind k disagrees with the tree (QNames[k]);
\*   <<1, c, h>>  the provider reported hash h for a live file whose content is c.
InfoOK(rec, m) ==
  /\ rec.f = m.found
  /\ m.found = 1 => /\ NormOid(rec.oid) = m.oid
                    /\ rec.t = m.type
                    /\ Norm(rec.rp) = Norm(m.path)
                    /\ (m.type = FILE => rec.sz = SizeOf[m.content])
Flag(c, k) == IF c THEN {} ELSE {<<0, k, 0>>}
HashOf(rec, m) == IF rec.f = 1 /\ m.found = 1 /\ m.type = FILE THEN {<<1, m.content, rec.h>>} ELSE {}

PEval(f, r) ==                       \* info_path / exists_path for one path
  LET s == AtPath(f, r.p)
      m == IF s = {} THEN NotFoundInfo ELSE InfoOf(f, Pick(s))
  IN  Flag(InfoOK(r, m), 1) \cup Flag(r.ex = m.found, 2) \cup HashOf(r, m)

OEval(f, r) ==                       \* info_oid / exists_oid / download / listdir for one id
  LET s == ByOid(f, NormOid(r.oid))
      m == IF s = {} THEN NotFoundInfo ELSE InfoOf(f, Pick(s))
      isfile == m.found = 1 /\ m.type = FILE
      isdir  == m.found = 1 /\ m.type = DIR
      kids   == IF isdir THEN Kids(f, Pick(s)) ELSE {}
      kidOf(e) == {k \in kids : PubOid(f, k) = NormOid(e.oid)}
      \* the class of a failing download is not documented; listdir of anything but a live folder: not found
      dlok == IF isfile THEN r.de = 0 /\ r.dc = m.content ELSE r.de # 0
      obsents == {[oid |-> NormOid(r.ls[k].oid), name |-> NormName(r.ls[k].n), type |-> r.ls[k].t] : k \in 1..Len(r.ls)}
      lsok == IF ~isdir THEN r.le = NOTFOUND \/ (OidIsPath /\ HasBad(r.oid) /\ r.le = NAMEERR)
              ELSE /\ r.le = 0
                   /\ obsents = {[oid |-> PubOid(f, k), name |-> NormName(Leaf(f[k].path)), type |-> f[k].type] : k \in kids}
      lsonce == (isdir /\ r.le = 0) => Len(r.ls) = Cardinality(obsents)        \* nothing is listed twice
      lshash == UNION {IF kidOf(r.ls[k]) # {} /\ f[Pick(kidOf(r.ls[k]))].type = FILE
                       THEN {<<1, f[Pick(kidOf(r.ls[k]))].content, r.ls[k].h>>} ELSE {} : k \in 1..Len(r.ls)}
  IN  Flag(InfoOK(r, m), 3) \cup Flag(r.ex = m.found, 4) \cup Flag(dlok, 5) \cup Flag(lsok, 6) \cup Flag(lsonce, 8)
      \cup HashOf(r, m) \cup (IF isfile THEN {<<1, m.content, r.ho>>} ELSE {})
      \cup (IF isdir /\ r.le = 0 THEN lshash ELSE {})

\* the harness asked about every object of the tree (otherwise an agreement would be vacuous)
QComplete(f, obs) ==
  /\ {Norm(f[o].path) : o \in Live(f)} \subseteq {Norm(obs.P[k].p) : k \in 1..Len(obs.P)}
  /\ {PubOid(f, o) : o \in (IF OidIsPath THEN Live(f) ELSE DOMAIN f)} \subseteq {NormOid(obs.O[k].oid) : k \in 1..Len(obs.O)}

Eval(f, obs) == UNION {PEval(f, obs.P[k]) : k \in 1..Len(obs.P)} \cup UNION {OEval(f, obs.O[k]) : k \in 1..Len(obs.O)}
                \cup Flag(QComplete(f, obs), 7)
QNames == <<"QueriesAgree/info_path", "QueriesAgree/exists_path", "QueriesAgree/info_oid", "QueriesAgree/exists_oid",
            "QueriesAgree/download", "QueriesAgree/listdir", "QueriesAgree/complete", "QueriesAgree/listdir_twice">>
CheckQueries(ev) == \A k \in 1..8 : Check(<<0, k, 0>> \notin ev, QNames[k])
\* kinds 1..7 mean that the provider's tree is not the model's tree; an entry listed twice (8) is only a wrong answer
QueriesOK(ev)    == \A k \in 1..7 : <<0, k, 0>> \notin ev
Reported(ev)     == {<<t[2], t[3]>> : t \in {u \in ev : u[1] = 1}}

\* ---- hashes ----------------------------------------------------------------------------------------
ScOf(S) == {SizeClass(c) : c \in S}
CheckBySize(bad, name) == \A sc \in SizeClasses : Check(sc \notin ScOf(bad), name \o "/" \o ToString(sc))
\* the hash law of ProviderModel, clause by clause (rep: reported at this line, allrep: in this trace so far)
HashChecks(rep, hd, allrep) ==
  /\ CheckBySize(HashNotOfData(rep, hd), "HashMatchesData")
  /\ CheckBySize(EqualBytesDiffer(allrep) \cup {c \in AllContents : hd[c] # Tr[1].obs.hd[c]}, "EqualBytesEqualHash")
  /\ CheckBySize(DifferentBytesCollide(allrep), "DifferentBytesDifferentHash")
HdInjective(hd) == CheckBySize(DataHashCollide(hd), "DifferentBytesDifferentHash")

\* ---- events: every mutation reported with the right id and existence --------------------------------
Idx(es, x)  == {i \in 1..Len(es) : NormOid(es[i].oid) = x}
MaxOf(S)    == CHOOSE i \in S : \A j \in S : j <= i
LastEx(es, x) == IF Idx(es, x) = {} THEN 9 ELSE es[MaxOf(Idx(es, x))].ex
Reports(mev, es, x) ==          \* mev: the model's events of this call; es: the events the provider delivered
  LET m  == mev[MaxOf({i \in 1..Len(mev) : mev[i].oid = x})]
      oi == Idx(es, x)
  IN  /\ oi # {}
      /\ LET e == es[MaxOf(oi)] IN
           /\ e.ex = B(m.exists)
           /\ (e.t = m.type \/ (~m.exists /\ e.t = 0))
           /\ (m.exists /\ (OidIsPath \/ Filt)) => Norm(e.path) = Norm(m.path)
           /\ (OidIsPath /\ m.prior # NoOid /\ m.prior # m.oid)
                 => ((\E i \in oi : Norm(es[i].prior) = m.prior) \/ LastEx(es, m.prior) = 0)
AllReported(mev, es, synced) ==
  Len(mev) = 0 \/ (synced = 1 /\ \A x \in {mev[i].oid : i \in 1..Len(mev)} : Reports(mev, es, x))

\* ---- the trace ---------------------------------------------------------------------------------------
TraceInit ==
  /\ tid \in 1..Len(Traces)
  /\ l = 1
  /\ ok = TRUE
  /\ hs = {}
  /\ PInit
  /\ idn = Fresh

Advance == /\ l' = l + 1
           /\ IF l = Len(Tr) THEN TLCSet(2, TLCGet(2) + 1) ELSE TRUE
           /\ UNCHANGED tid

TInit ==
  /\ Ev.op = "init"
  /\ LET ev == Eval(fs, Ev.obs) IN
       /\ CheckQueries(ev)
       /\ HdInjective(Ev.obs.hd)
       /\ ok' = QueriesOK(ev)
  /\ UNCHANGED <<fs, nextOid, feed, hs, idn>>
  /\ Advance

ModelOf(e) ==
  CASE e.op = "create" -> PCreate(fs, nextOid, e.p, e.c)
    [] e.op = "mkdir"  -> PMkdir(fs, nextOid, e.p)
    [] e.op = "upload" -> PUpload(fs, nextOid, e.x, e.c)
    [] e.op = "rename" -> PRename(fs, nextOid, e.x, e.p)
    [] e.op = "delete" -> PDelete(fs, nextOid, e.x)

TCall ==
  /\ Ev.op \in {"create", "mkdir", "upload", "rename", "delete"}
  /\ IF ~ok THEN UNCHANGED <<fs, nextOid, feed, ok, hs, idn>>
     ELSE
     LET r     == ModelOf(Ev)
         cErr  == IF r.errs = {} THEN Ev.exc = 0
                  ELSE Ev.exc # 0 /\ (INVALID \in r.errs \/ Ev.exc \in {ExcOf(e) : e \in r.errs})
         cRid  == (r.errs = {} /\ Ev.exc = 0 /\ Ev.op # "delete") => NormOid(Ev.rid) = r.oid
         ridClause == IF OidIsPath THEN "IdIsNormalisedPath"
                      ELSE IF Ev.op = "rename" THEN "IdStable" ELSE "QueriesAgree/returned"
         ev    == IF Ev.ob = 1 THEN Eval(r.fs, Ev.obs) ELSE {}
         extra == IF r.errs = {} /\ Ev.exc = 0 /\ Ev.op \in {"create", "upload"} THEN {<<Ev.c, Ev.rh>>} ELSE {}
         rep   == Reported(ev) \cup extra
         hd    == IF Ev.ob = 1 THEN Ev.obs.hd ELSE Tr[1].obs.hd
         same  == cErr /\ cRid /\ QueriesOK(ev)          \* the provider's tree still is the model's tree
     IN
       /\ UNCHANGED idn
       /\ Check(cErr, "ErrorClass/" \o ToString(r.errs) \o "/" \o ToString(Ev.exc))
       /\ Check(cRid, ridClause)
       /\ IF cErr /\ cRid THEN CheckQueries(ev) ELSE TRUE    \* else: the call took effect on one side only
       /\ IF same
          THEN /\ HashChecks(rep, hd, hs \cup rep)
               /\ Check(AllReported(r.evs, Ev.evs, Ev.es), "EveryMutationReported")
          ELSE TRUE
       /\ Do(r)
       /\ ok' = same
       /\ hs' = hs \cup rep
  /\ Advance

TConnect ==
  /\ Ev.op = "connect_other"
  /\ Check(Ev.hasid = 0 \/ (Ev.exc = TOKENERR /\ Ev.conn = 0), "IdentityRefused")
  /\ UNCHANGED <<fs, nextOid, feed, ok, hs, idn>>
  /\ Advance

\* ---- identity traces: the logins are replayed on ProviderIdentity ---------------------------------------
\* Every clause is stated against the MODEL's binding (the identity of the first successful login), so a
\* provider whose binding has moved keeps failing: the foreign identity accepted on a second attempt is an
\* IdentityRefused failure of its own, the owner refused afterwards an OwnerAccepted failure.
TIdent ==
  /\ Ev.op \in {"idinit", "connect", "disconnect", "reconnect", "setcreds", "bindforeign"}
  /\ LET s     == idn
         login == Ev.op = "connect" \/ (Ev.op = "reconnect" /\ ~s.conn)
         j     == IF Ev.op = "connect" THEN Ev.j ELSE s.creds
         r     == IF Ev.op = "connect" THEN IConnect(s, Ev.j)
                  ELSE IF Ev.op = "reconnect" THEN IReconnect(s) ELSE IDisconnect(s)
     IN
     IF Ev.op = "idinit" THEN idn' = Fresh
     ELSE IF Ev.op = "setcreds" THEN idn' = [s EXCEPT !.creds = Ev.j]
     ELSE IF Ev.op = "bindforeign" THEN idn' = [s EXCEPT !.bound = Ev.j]
     ELSE IF login /\ ~r.ok THEN
       \* refused: with the token error, not connected as anybody else, the binding what it was.  A provider
       \* that was connected as its owner may keep or drop that session (the trace follows the code)
       /\ Check(Ev.exc = TOKENERR /\ (Ev.conn = 0 \/ s.conn), "IdentityRefused")
       /\ Check(Ev.cid = s.bound, "BindingUnchangedByRefusal")
       /\ idn' = [r.st EXCEPT !.conn = (s.conn /\ Ev.conn = 1)]
     ELSE IF login THEN
       /\ Check(Ev.exc = 0 /\ Ev.conn = 1 /\ Ev.cid = j, IF s.bound = NOID THEN "LoginBinds" ELSE "OwnerAccepted")
       /\ idn' = r.st
     ELSE IF Ev.op = "reconnect" THEN
       /\ Check(Ev.exc = 0 /\ Ev.conn = 1 /\ Ev.cid = s.bound, "ReconnectKeepsBinding")
       /\ idn' = r.st
     ELSE
       /\ Check(Ev.exc = 0 /\ Ev.conn = 0 /\ Ev.cid = s.bound, "DisconnectKeepsBinding")
       /\ idn' = r.st
  /\ UNCHANGED <<fs, nextOid, feed, ok, hs>>
  /\ Advance

TraceNext == l <= Len(Tr) /\ (TInit \/ TCall \/ TConnect \/ TIdent)
TraceSpec == TraceInit /\ [][TraceNext]_tvars

ASSUME TLCSet(1, {}) /\ TLCSet(2, 0)
Report == PrintT("@@" \o ToJson([violations |-> TLCGet(1), completed |-> TLCGet(2), traces |-> Len(Traces)]))
=============================================================================

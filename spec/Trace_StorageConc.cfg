CONSTANTS
  Tags = {1}
  Ids = {1}
  Vals = {1}
  Threads = {1, 2, 3, 4}
SPECIFICATION CSpec
POSTCONDITION Report
CHECK_DEADLOCK FALSE

CONSTANTS
  MaxN = 4
  Threaded = FALSE
SPECIFICATION NSpec
INVARIANT TypeOK
INVARIANT InOrder
INVARIANT ExactlyOnce
PROPERTY HandlerFailureDoesNotStopDelivery
PROPERTY NothingAfterStop
CHECK_DEADLOCK FALSE

--------------------------------- MODULE Sys ---------------------------------
(***************************************************************************)
(* The two-sided system as the listed properties see it: two provider trees, *)
(* a ghost ledger of what users wrote / destroyed, and the engine as a set of *)
(* provider calls whose GUARDS ARE THE PROPERTIES (C01-C04, C12; the clauses   *)
(* for C05-C07, C10, C14, C17 are added by the modules that extend this one).  *)
(*                                                                            *)
(*  tr[1], tr[2]   local / remote tree (Tree.tla), absolute paths, roots = <<ROOT>> *)
(*  written        content ids written by users (every user write is a fresh id)     *)
(*  killed         content ids a user deleted or overwrote (on either side)          *)
(*  dropped        versions a resolver answer explicitly discarded                   *)
(*  merged         content ids produced by a resolver (legitimate engine content)    *)
(*  expect         the tree both sides must show at quiet when the history is        *)
(*                 non-conflicting (base + both sides' changes), exOK = still defined *)
(*  chg[s]         paths whose cell a user changed on side s in the current unsynced  *)
(*                 window; anc[s] their ancestors (what those changes depend on)      *)
(*  origin         0 = no user change yet, 1 / 2 = only that side changed, 3 = both   *)
(*  userTree[s]    tree of side s right after the last user operation there            *)
(***************************************************************************)
EXTENDS Tree, TLC

ROOT == 10
Other(s) == 3 - s
Sides == {1, 2}

VARIABLES tr, written, killed, dropped, merged, expect, exOK, chg, anc, origin,
          win,    \* per-window bookkeeping for the hazard tags (DESIGN.md 5.2), per side
          tags    \* hazard tags of the history so far (set of strings)

cvars == <<tr, written, killed, dropped, merged, expect, exOK, chg, anc, origin, win, tags>>

Inside(p) == Len(p) >= 2 /\ p[1] = ROOT
InsideOf(t)  == Drop(t, {p \in DOMAIN t : p[1] # ROOT})      \* the sync root and what is below it
OutsideOf(t) == Drop(t, {p \in DOMAIN t : p[1] = ROOT})      \* everything else in the account
Live      == written \ (killed \cup dropped)
CopiesAll(trees, v) == Copies(trees[1], v) + Copies(trees[2], v)
\* copies that can actually be read: bad = set of <<side, path, version>> a provider reports as unreadable (corrupt)
CopiesGood(trees, v, bad) ==
  Cardinality({sp \in UNION {{<<s, p>> : p \in DOMAIN trees[s]} : s \in Sides} :
                 trees[sp[1]][sp[2]] = v /\ <<sp[1], sp[2], v>> \notin bad})

\* ---- user operations (environment) ---------------------------------------------------------
\* op = [k, p, q, c]; result: the new tree of that side, or the same tree when the intent does not apply
Applies(t, op) ==
  CASE op.k = "create" -> CanCreate(t, op.p)
    [] op.k = "write"  -> CanWrite(t, op.p)
    [] op.k = "delete" -> IsFile(t, op.p)
    [] op.k = "rmdir"  -> Len(op.p) > 0 /\ Has(t, op.p) /\ t[op.p] = DIR /\ Kids(t, op.p) = {}
    [] op.k = "mkdir"  -> CanMkdir(t, op.p)
    [] op.k = "rename" -> CanRename(t, op.p, op.q)
Apply(t, op) ==
  CASE op.k = "create" -> Create(t, op.p, op.c)
    [] op.k = "write"  -> Write(t, op.p, op.c)
    [] op.k = "delete" -> Delete(t, op.p)
    [] op.k = "rmdir"  -> Delete(t, op.p)
    [] op.k = "mkdir"  -> Mkdir(t, op.p)
    [] op.k = "rename" -> Rename(t, op.p, op.q)
Kills(t, op) ==            \* content ids destroyed by a user operation
  CASE op.k = "write"  -> {t[op.p]}
    [] op.k = "delete" -> {t[op.p]}
    [] OTHER -> {}
Writes(op) == IF op.k \in {"create", "write"} THEN {op.c} ELSE {}

\* footprints: the two sides' changes of one unsynced window are disjoint when neither side changed a
\* path the other side changed or depends on (an ancestor of a changed path)
FootprintsDisjoint(c, a) ==
  /\ c[1] \cap (c[2] \cup a[2]) = {}
  /\ c[2] \cap (c[1] \cup a[1]) = {}

\* ---- hazard tags (strata) ---------------------------------------------------------------------
\* Computed from the user history alone, within one unsynced window (since the last quiet-and-equal
\* point), per side.  They label a history; they never excuse anything by themselves: a listed finding
\* must match clause AND tags AND flavour.
EmptyWin == [fresh |-> <<{}, {}>>, vac |-> <<{}, {}>>, mdirs |-> <<{}, {}>>, kinds |-> <<{}, {}>>]
KindOf(t, p) == IF t[p] = DIR THEN 1 ELSE 2
OpTags(s, op, ok) ==
  LET t  == tr[s]
      fr == win.fresh[s]
      vc == win.vac[s]
      md == win.mdirs[s]
      viaMoved(p) == \E m \in md : IsPrefix(m, p) /\ m # p
  IN IF ~ok THEN {"NOOP"} ELSE
     (IF viaMoved(op.p) \/ (op.k = "rename" /\ viaMoved(op.q)) THEN {"DIRMOVE_THEN_DESC"} ELSE {}) \cup
     (CASE op.k \in {"create", "mkdir"} -> IF op.p \in vc THEN {"REUSE"} ELSE {}
        [] op.k = "write" -> IF op.p \in fr THEN {"FRESH_EDIT"} ELSE {}
        [] op.k \in {"delete", "rmdir"} -> IF op.p \in fr THEN {"FRESH_DELETED"} ELSE {}
        [] op.k = "rename" ->
             (IF t[op.p] = DIR
                THEN (IF \E x \in Under(t, op.p) : x \in fr THEN {"DIRMOVE_FRESH"} ELSE {"DIRMOVE"})
                ELSE (IF op.p \in fr THEN {"FILEMOVE_FRESH"} ELSE {})) \cup
             (IF Has(t, op.q) THEN {"RENAME_ONTO"} ELSE {}) \cup
             (IF \E x \in Under(t, op.p) : Rebase(x, op.p, op.q) \in vc THEN {"REUSE"} ELSE {}))
WinAfter(s, op, ok) ==
  LET t == tr[s] IN
  IF ~ok THEN win ELSE
  CASE op.k \in {"create", "mkdir"} ->
         [win EXCEPT !.fresh[s] = @ \cup {op.p},
                     !.kinds[s] = @ \cup {<<op.p, IF op.k = "mkdir" THEN 1 ELSE 2>>}]
    [] op.k = "write" -> [win EXCEPT !.fresh[s] = @ \cup {op.p}]
    [] op.k \in {"delete", "rmdir"} ->
         [win EXCEPT !.vac[s] = @ \cup {op.p}, !.kinds[s] = @ \cup {<<op.p, KindOf(t, op.p)>>}]
    [] op.k = "rename" ->
         LET mv == Under(t, op.p) IN
         [win EXCEPT !.vac[s] = @ \cup mv,
                     !.fresh[s] = @ \cup {Rebase(x, op.p, op.q) : x \in mv},
                     !.mdirs[s] = IF t[op.p] = DIR THEN @ \cup {op.q} ELSE @,
                     !.kinds[s] = @ \cup {<<x, KindOf(t, x)>> : x \in mv}
                                     \cup {<<Rebase(x, op.p, op.q), KindOf(t, x)>> : x \in mv}
                                     \cup (IF Has(t, op.q) THEN {<<op.q, KindOf(t, op.q)>>} ELSE {})]
TypeTag(w) == IF \E s \in Sides : \E a, b \in w.kinds[s] : a[1] = b[1] /\ a[2] # b[2] THEN {"TYPE"} ELSE {}
\* kinds of conflict between the two sides' changes of one window (trees = the two trees after the operation):
\*   CF_FILEFILE both sides put a file at the path (create/create, edit/edit ...: the resolver's business)
\*   CF_DIRDIR   both sides put a folder there      CF_TYPE  a file on one side, a folder on the other
\*   CF_GONE     one side removed / moved away what the other side changed
\*   CF_ANC      one side changed a path the other side's change depends on (an ancestor)
KindAt(t, p) == IF ~Has(t, p) THEN 0 ELSE IF t[p] = DIR THEN 1 ELSE 2
ConflictKinds(nc, na, trees) ==
  LET X == (nc[1] \cap (nc[2] \cup na[2])) \cup (nc[2] \cap (nc[1] \cup na[1]))
      K(p) == LET a == KindAt(trees[1], p)
                  b == KindAt(trees[2], p)
              IN IF ~(p \in nc[1] /\ p \in nc[2]) THEN "CF_ANC"
                 ELSE IF a = 2 /\ b = 2 THEN "CF_FILEFILE"
                 ELSE IF a = 1 /\ b = 1 THEN "CF_DIRDIR"
                 ELSE IF a = 0 \/ b = 0 THEN "CF_GONE"
                 ELSE "CF_TYPE"
  IN {K(p) : p \in X}
TagEffect(s, op, ok, nc, na, t2) ==
  /\ win' = WinAfter(s, op, ok)
  /\ tags' = tags \cup OpTags(s, op, ok) \cup TypeTag(WinAfter(s, op, ok))
               \cup (IF nc[1] # {} /\ nc[2] # {} THEN {"TWOSIDED"} ELSE {})
               \cup (IF ~FootprintsDisjoint(nc, na)
                     THEN {"CONFLICT"} \cup ConflictKinds(nc, na, [tr EXCEPT ![s] = t2]) ELSE {})

UserEffect(s, op, t2) ==     \* t2 = tree of side s after the operation (applied)
  LET d   == Diff(tr[s], t2)
      nc  == [chg EXCEPT ![s] = @ \cup d]
      na  == [anc EXCEPT ![s] = @ \cup UNION {Ancestors(p) : p \in d}]
      eOK == Applies(expect, op)
  IN /\ written' = written \cup Writes(op)
     /\ killed' = killed \cup Kills(tr[s], op)
     /\ chg' = nc /\ anc' = na
     /\ exOK' = (exOK /\ eOK /\ FootprintsDisjoint(nc, na))
     /\ expect' = IF eOK THEN Apply(expect, op) ELSE expect
     /\ origin' = IF origin = 0 \/ origin = s THEN s ELSE 3
     /\ TagEffect(s, op, TRUE, nc, na, t2)

\* ---- engine calls: guards are the properties ---------------------------------------------------
\* C02 LastCopy: removing/overwriting the cell at (s,p) must not destroy the last copy of a live version
LastCopyOK(trees, s, p, bad) ==
  IF ~Has(trees[s], p) THEN TRUE
  ELSE IF trees[s][p] = DIR THEN TRUE
  ELSE IF trees[s][p] \notin Live THEN TRUE
  ELSE IF <<s, p, trees[s][p]>> \in bad THEN CopiesGood(trees, trees[s][p], bad) >= 1   \* removing an unreadable copy
  ELSE CopiesGood(trees, trees[s][p], bad) > 1
\* C02 NoInventedContent: the engine only writes user versions or resolver output
ContentOK(c) == c \in written \cup merged
\* C12 InsideRoot
InsideOK(p) == Inside(p)

\* C01 at quiet: same paths, types, contents, '.conflicted' files being the only permitted one-sided extras
Converged(whole) ==
  LET trees == <<InsideOf(whole[1]), InsideOf(whole[2])>> IN
  /\ StripConflicted(trees[1]) = StripConflicted(trees[2])
  /\ \A s \in Sides : \A p \in ConflictedPaths(trees[s]) : Has(trees[Other(s)], p) \/ trees[s][p] # DIR
\* C02 at quiet
NoLoss(trees, bad) == \A v \in Live : CopiesGood(trees, v, bad) >= 1
NoInvented(trees) == \A s \in Sides : Cells(trees[s]) \subseteq written \cup merged \cup {DIR}
\* C03 / C04 at quiet: both sides show exactly base + both sides' changes, nothing conflicted
AsExpected(trees) == InsideOf(trees[1]) = InsideOf(expect) /\ InsideOf(trees[2]) = InsideOf(expect)
\* after a restart without a usable cursor the engine falls back to a full walk: everything created or modified
\* reaches the other side; deletions made meanwhile are not promised
Covers(t, e) == \A p \in DOMAIN InsideOf(e) : Has(t, p) /\ t[p] = e[p]
CoversExpected(trees) == Covers(trees[1], expect) /\ Covers(trees[2], expect)
NoArtefacts(trees) == ConflictedPaths(trees[1]) = {} /\ ConflictedPaths(trees[2]) = {}
\* C12: the engine never changes anything outside the roots (compared with what the users left there)
OutsideUntouched(trees, userTrees) == \A s \in Sides : OutsideOf(trees[s]) = OutsideOf(userTrees[s])

\* quiet and equal: a new unsynced window begins
WindowReset == chg' = <<{}, {}>> /\ anc' = <<{}, {}>> /\ win' = EmptyWin

=============================================================================

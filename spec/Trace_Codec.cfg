SPECIFICATION TSpec
POSTCONDITION Report
CHECK_DEADLOCK FALSE

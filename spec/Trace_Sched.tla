----------------------------- MODULE Trace_Sched -----------------------------
(* Judges the answers of the real SyncState.change(age) against the laws of Sched.tla (one configuration per trace). *)
EXTENDS Sched, IOUtils
VARIABLES tid, l
Traces == JsonDeserialize(IOEnv.TRACE_FILE)
Cf == Traces[tid][1]
Viol(clause) == TLCSet(1, TLCGet(1) \cup {<<tid, l, clause>>})
Check(x, clause) == IF x THEN TRUE ELSE Viol(clause)
TInit == tid \in 1..Len(Traces) /\ l = 1 /\ c = 0
TNext ==
  /\ l = 1 /\ l' = 2 /\ UNCHANGED <<tid, c>>
  /\ Check(ChosenIsEligible(Cf), "ChosenIsEligible")
  /\ Check(NothingOnlyIfNoneEligible(Cf), "EligibleIsChosen")
  /\ Check(NoBetterEligible(Cf), "LowerPriorityThenOlderFirst")
  /\ Check(ZeroAgeAllEligible(Cf), "ZeroAgeAllEligible")
  /\ TLCSet(2, TLCGet(2) + 1)
TSpec == TInit /\ [][TNext]_<<tid, l, c>>
ASSUME TLCSet(1, {}) /\ TLCSet(2, 0)
Report == PrintT("@@" \o ToJson([violations |-> TLCGet(1), completed |-> TLCGet(2), traces |-> Len(Traces)]))
=============================================================================

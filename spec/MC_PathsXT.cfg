\* design run (thorough), translation: all 64 pairs of conventions, roots join(p), join(r) with |p|, |r| <= 1, relative part |q| <= 2
CONSTANTS
  Seps = {1, 2}
  Cases = {TRUE, FALSE}
  Wins = {TRUE, FALSE}
  Wins2 = {TRUE, FALSE}
  LP = 1
  LQ = 2
  LR = 1
  Ext = {}
SPECIFICATION PathsSpec
INVARIANT DesignX
CHECK_DEADLOCK FALSE

--------------------------- MODULE Gen_PathsSpell ---------------------------
(* Input generator for the C13 cases on folders AS SPELLED (kinds S and Y).  TLC enumerates, for both separators  *)
(* and with / without drive letters,                                                                             *)
(*   - every folder name vp / vr written the way join writes it without its leading separator ("a", "a/A", "aA": *)
(*     names over NameChars (plus WinNames where drive letters exist), at most LP / LR characters, names of one  *)
(*     character when longer than two),                                                                          *)
(*   - every relative part vq with |vq| <= LQ (characters of ShortQ - plus WinQ - when |vq| = 1; when longer,     *)
(*     the first character also in LongQ and the others in LongQ),                                               *)
(* and prints, for every spelling number k in Spells (Paths!Spell) that writes the pair of folders differently   *)
(* from all smaller numbers, one JSON line [sep, win, F, q, G, k]: F = Spell(join(vp), k), G = Spell(join(vr), k).*)
(* The driver hands F and G to the real helpers exactly as printed.                                              *)
EXTENDS Paths, Json, TLC
CONSTANTS NameChars,      \* characters of folder names
          WinNames,       \* further characters of folder names where win is TRUE (':' - drive folders get re-spelled too)
          WinQ,           \* further characters of one-character relative parts where win is TRUE
          ShortQ,         \* characters of one-character relative parts
          LongQ,          \* characters of longer relative parts
          Spells          \* spelling numbers, subset of 0..NSpell

\* a folder name as join writes it (minus the leading separator): no alternate separator, no separator in front, no doubled one
FolderChars(c) == NameChars \cup {c.sep} \cup (IF c.win THEN WinNames ELSE {})
GrowOK(c, s) ==
  /\ s[1] # c.sep
  /\ \A i \in 1..(Len(s) - 1) : ~(s[i] = c.sep /\ s[i + 1] = c.sep)
  /\ IF Len(s) <= 2 THEN TRUE ELSE \A i \in 1..(Len(s) - 1) : (IF s[i] = c.sep THEN TRUE ELSE s[i + 1] = c.sep)   \* longer: one-character names
Whole(c, s) == IF Len(s) = 0 THEN TRUE ELSE s[Len(s)] # c.sep        \* (IF, not \/: inside an action TLC explores both disjuncts)
QOK(c, s) == IF Len(s) <= 1 THEN s[1] \in ShortQ \cup (IF c.win THEN WinQ ELSE {}) ELSE \A i \in 1..Len(s) : s[i] \in LongQ

SpellNext ==
  /\ \/ \E ch \in FolderChars(vc) :
          /\ Len(vq) = 0 /\ Len(vr) = 0 /\ Len(vp) < LP /\ vp' = Append(vp, ch) /\ GrowOK(vc, vp') /\ UNCHANGED <<vq, vr>>
     \/ \E ch \in Alpha(vc, vc2) :
          /\ Whole(vc, vp) /\ Len(vr) = 0 /\ Len(vq) < LQ /\ vq' = Append(vq, ch) /\ QOK(vc, vq') /\ UNCHANGED <<vp, vr>>
     \/ \E ch \in FolderChars(vc) :
          /\ Whole(vc, vp) /\ Len(vr) < LR /\ vr' = Append(vr, ch) /\ GrowOK(vc, vr') /\ UNCHANGED <<vp, vq>>
  /\ UNCHANGED <<vc, vc2>>
SpellSpec == PathsInit /\ [][SpellNext]_pvars

F(k) == Spell(vc, Join(vc, <<vp>>), k)
G(k) == Spell(vc, Join(vc, <<vr>>), k)
Fresh(k) == \A j \in Spells : j < k => (F(j) # F(k) \/ G(j) # G(k))
Emit ==
  (Whole(vc, vp) /\ Whole(vc, vr)) =>
     \A k \in Spells : Fresh(k) => PrintT("@@" \o ToJson(<<vc.sep, IF vc.win THEN 1 ELSE 0, F(k), vq, G(k), k>>))
=============================================================================

--------------------------- MODULE Gen_PathsSpell ---------------------------
(* Input generator for the C13 cases on folders AS SPELLED (kinds S and Y).  TLC enumerates                     *)
(*   - every folder name vp / vr written the way join writes it without its leading separator ("a", "a/A", "aA": *)
(*     names over NameChars, at most LP / LR characters, names of one character when longer than two),           *)
(*   - every relative part vq with |vq| <= LQ (any character when |vq| = 1, characters of LongQ when longer),    *)
(*   - for both separators,                                                                                      *)
(* and prints, for every spelling number k in Spells (Paths!Spell) that writes the pair of folders differently   *)
(* from all smaller numbers, one JSON line [sep, F, q, G, k]: F = Spell(join(vp), k), G = Spell(join(vr), k).     *)
(* The driver hands F and G to the real helpers exactly as printed.                                              *)
EXTENDS Paths, Json, TLC
CONSTANTS NameChars,      \* characters of folder names
          LongQ,          \* characters of relative parts longer than one character (separators included if wanted)
          Spells          \* spelling numbers, subset of 0..NSpell

\* a folder name as join writes it (minus the leading separator): no alternate separator, no separator in front, no doubled one
FolderChars(c) == NameChars \cup {c.sep}
GrowOK(c, s) ==
  /\ s[1] # c.sep
  /\ \A i \in 1..(Len(s) - 1) : ~(s[i] = c.sep /\ s[i + 1] = c.sep)
  /\ IF Len(s) <= 2 THEN TRUE ELSE \A i \in 1..(Len(s) - 1) : (IF s[i] = c.sep THEN TRUE ELSE s[i + 1] = c.sep)   \* longer: one-character names
Whole(c, s) == IF Len(s) = 0 THEN TRUE ELSE s[Len(s)] # c.sep        \* (IF, not \/: inside an action TLC explores both disjuncts)
QOK(s) == IF Len(s) <= 1 THEN TRUE ELSE \A i \in 1..Len(s) : s[i] \in LongQ

SpellNext ==
  /\ \/ \E ch \in FolderChars(vc) :
          /\ Len(vq) = 0 /\ Len(vr) = 0 /\ Len(vp) < LP /\ vp' = Append(vp, ch) /\ GrowOK(vc, vp') /\ UNCHANGED <<vq, vr>>
     \/ \E ch \in Alpha(vc, vc2) :
          /\ Whole(vc, vp) /\ Len(vr) = 0 /\ Len(vq) < LQ /\ vq' = Append(vq, ch) /\ QOK(vq') /\ UNCHANGED <<vp, vr>>
     \/ \E ch \in FolderChars(vc) :
          /\ Whole(vc, vp) /\ Len(vr) < LR /\ vr' = Append(vr, ch) /\ GrowOK(vc, vr') /\ UNCHANGED <<vp, vq>>
  /\ UNCHANGED <<vc, vc2>>
SpellSpec == PathsInit /\ [][SpellNext]_pvars

F(k) == Spell(vc, Join(vc, <<vp>>), k)
G(k) == Spell(vc, Join(vc, <<vr>>), k)
Fresh(k) == \A j \in Spells : j < k => (F(j) # F(k) \/ G(j) # G(k))
Emit ==
  (Whole(vc, vp) /\ Whole(vc, vr)) =>
     \A k \in Spells : Fresh(k) => PrintT("@@" \o ToJson(<<vc.sep, F(k), vq, G(k), k>>))
=============================================================================

\* EXPECTED VIOLATION of BackoffLaw: design variant in which the pause is max(sleep, in_backoff): with a loop sleep larger than the first backoff steps the retries wait a whole loop sleep instead of min * mult^(k-1)
CONSTANTS
  Ctls = {1}
  Owner = 1
  OpKinds = {}
  Outcomes = {"did", "nothing", "backoff", "exc", "base"}
  MaxCalls = 0
  MaxDo = 3
  UseUntil = TRUE
  PreStarted = TRUE
  FixedStopOrder = 2
  ResetInRun = FALSE
  BMin = 4
  BMax = 18
  BMulP = 3
  BMulQ = 2
  Sleeps = {1, 8, 40}
  PauseMax = TRUE
SPECIFICATION Spec
INVARIANT BackoffLaw
CHECK_DEADLOCK FALSE

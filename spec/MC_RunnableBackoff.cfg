\* design run, code as found: the pause at the end of an iteration against the law, every sequence of <= 5 free do() outcomes, loop sleep below min (1), between min and max (8), above max (40); backoff 4 / 18 / x 3/2 (steps 4, 6, 9, 27/2, 18)
CONSTANTS
  Ctls = {1}
  Owner = 1
  OpKinds = {}
  Outcomes = {"did", "nothing", "backoff", "exc", "base"}
  MaxCalls = 0
  MaxDo = 5
  UseUntil = TRUE
  PreStarted = TRUE
  FixedStopOrder = 2
  ResetInRun = FALSE
  BMin = 4
  BMax = 18
  BMulP = 3
  BMulQ = 2
  Sleeps = {1, 8, 40}
  PauseMax = FALSE
SPECIFICATION Spec
INVARIANT TypeOK
INVARIANT BackoffLaw
INVARIANT ClearOnSuccess
INVARIANT BackoffState
INVARIANT SurvivesAnythingSeen
PROPERTY SurvivesAnything
CHECK_DEADLOCK FALSE

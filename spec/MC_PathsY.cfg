\* design run (quick): translation laws with the roots as spelled, the 16 pairs of conventions without drive letters:
\* root of side 0 = the 14 listed re-spellings of join(p), |p| <= 1, root of side 1 = the re-spellings of the bare root;
\* relative part |q| <= 1 (all 64 pairs, both roots named: MC_PathsYT.cfg)
CONSTANTS
  Seps = {1, 2}
  Cases = {TRUE, FALSE}
  Wins = {FALSE}
  Wins2 = {FALSE}
  LP = 1
  LQ = 1
  LR = 0
  Ext = {}
SPECIFICATION PathsSpec
INVARIANT DesignYSpell
CHECK_DEADLOCK FALSE

---------------------------- MODULE Trace_Notifier ----------------------------
(* C18, notifications: monitor on recorded traces of the real NotificationManager.  Events (one recorder   *)
(* lock): notify(id) before the item is queued, deliver(id, fail) at the entry of the application's        *)
(* handler, stopcall / stopret around stop(), drain when everything raised so far has had its turn (direct *)
(* mode: the driver has called do() once per queued item; thread mode: the handler has just seen a         *)
(* sentinel notification that was raised last).  Line 1: configuration (threaded = 0 / 1).  Total: a false *)
(* clause is recorded, nothing blocks.                                                                     *)
EXTENDS Notifier, Json, IOUtils
VARIABLES tid, l
tnvars == <<q, raised, delivered, halted, stopret, tid, l>>

Traces == JsonDeserialize(IOEnv.TRACE_FILE)
Tr  == Traces[tid]
Cfg == Tr[1]
Ev  == Tr[l]
Rec(S) == IF S = {} THEN TRUE ELSE TLCSet(1, TLCGet(1) \cup {<<tid, l, c>> : c \in S})

TInit == tid \in 1..Len(Traces) /\ l = 2 /\ NInit
Adv == /\ l' = l + 1
       /\ IF l = Len(Tr) THEN TLCSet(2, TLCGet(2) + 1) ELSE TRUE
       /\ UNCHANGED <<q, halted, tid>>

TNotify  == Ev.e = "notify" /\ raised' = raised + 1 /\ UNCHANGED <<delivered, stopret>> /\ Adv
TDeliver == /\ Ev.e = "deliver"
            /\ Rec(DeliverBad(delivered, raised, Ev.id, Cfg.threaded = 1 /\ stopret))
            /\ delivered' = Append(delivered, [id |-> Ev.id, fail |-> Ev.fail])
            /\ UNCHANGED <<raised, stopret>> /\ Adv
TStopCall == Ev.e = "stopcall" /\ UNCHANGED <<raised, delivered, stopret>> /\ Adv
TStopRet  == Ev.e = "stopret" /\ stopret' = TRUE /\ UNCHANGED <<raised, delivered>> /\ Adv
TDrain    == Ev.e = "drain" /\ Rec(DrainBad(delivered, raised)) /\ UNCHANGED <<raised, delivered, stopret>> /\ Adv

TNext == l <= Len(Tr) /\ (TNotify \/ TDeliver \/ TStopCall \/ TStopRet \/ TDrain)
TSpec == TInit /\ [][TNext]_tnvars

ASSUME TLCSet(1, {}) /\ TLCSet(2, 0)
Report == PrintT("@@" \o ToJson([violations |-> TLCGet(1), completed |-> TLCGet(2), traces |-> Len(Traces)]))
=============================================================================

CONSTANTS
  Tags = {1, 2, 3}
  Ids = {1}
  Vals = {1}
SPECIFICATION TraceSpec
POSTCONDITION Report
CHECK_DEADLOCK FALSE

------------------------------ MODULE Gen_Paths ------------------------------
(* Input generator for C13: the enumeration of Paths.tla (every triple of strings with |p| <= LP, |q| <= LQ,   *)
(* |r| <= LR over the alphabet of the chosen convention), each printed once as JSON [p, q, r].  Unary families   *)
(* use LQ = LR = 0, pairs LR = 0.  The driver evaluates the real helpers on every printed input.                 *)
EXTENDS Paths, Json, TLC
Emit == PrintT("@@" \o ToJson(<<vp, vq, vr>>))
=============================================================================

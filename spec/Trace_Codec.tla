----------------------------- MODULE Trace_Codec -----------------------------
(* Judges recorded serialize/deserialize round trips of the real SyncEntry (one recording per trace). *)
EXTENDS Codec, IOUtils
VARIABLES tid, l
Traces == JsonDeserialize(IOEnv.TRACE_FILE)
R == Traces[tid][1]
Viol(clause) == TLCSet(1, TLCGet(1) \cup {<<tid, l, clause>>})
Check(x, clause) == IF x THEN TRUE ELSE Viol(clause)
TInit == tid \in 1..Len(Traces) /\ l = 1 /\ c = 0
TNext ==
  /\ l = 1 /\ l' = 2 /\ UNCHANGED <<tid, c>>
  /\ Check(R.exc = "", "LoadsWithoutError")
  /\ IF R.exc # "" THEN TRUE
     ELSE IF R.legacy = 0
       THEN Check(R.before = R.after, "RoundTrip")
       ELSE /\ Check(R.after.ex = LegacyExpect(R.legacy)[1] /\ R.after.ig = LegacyExpect(R.legacy)[2], "LegacyLoads")
            /\ Check(R.after.fields = R.before.fields, "LegacyFieldsKept")
  /\ TLCSet(2, TLCGet(2) + 1)
TSpec == TInit /\ [][TNext]_<<tid, l, c>>
ASSUME TLCSet(1, {}) /\ TLCSet(2, 0)
Report == PrintT("@@" \o ToJson([violations |-> TLCGet(1), completed |-> TLCGet(2), traces |-> Len(Traces)]))
=============================================================================

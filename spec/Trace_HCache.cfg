\* sample trace-validation configuration, case-sensitive provider (run with TRACE_FILE=<json array of traces>)
CONSTANTS
  Names = {"a", "b"}
  Ids = {1, 2, 3}
  Depth = 2
  CaseFold = FALSE
  Metas = {0, 1, 2}
SPECIFICATION TraceSpec
POSTCONDITION Report
CHECK_DEADLOCK FALSE

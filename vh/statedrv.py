"""State-level driver (C08 / C11): feeds raw event tuples to a real SyncState and records the table after every call."""
import traceback

from .core import import_repo, VClock, install_clock, MachineryError
from .sysdrv import StateProjector, Names, NAMES


def execute(case):
    """case: {"path_style": bool, "ops": [...]}; returns (trace, err)."""
    try:
        import_repo()
        clk = VClock()
        install_clock(clk)
        from cloudsync.sync.state import SyncState
        from cloudsync.providers.mock import MockProvider
        from cloudsync.tests.fixtures.mock_storage import MockStorage
        from cloudsync.types import FILE, DIRECTORY, IgnoreReason
        ps = bool(case.get("path_style"))
        provs = (MockProvider(ps, not case.get("ci")), MockProvider(False, True))
        for p in provs:
            p.connect({"key": "val"})
        storage = MockStorage({})
        if case.get("smart"):
            from cloudsync.smartsync import SmartSyncState
            SyncState = SmartSyncState              # the on-demand engine's table (overrides the pending-set accessor)
        st = SyncState(provs, storage, tag="t")
        names = Names(("local", "remote"))
        proj = StateProjector(names)
        tr = [{"ev": "StateBase", "path_style": 1 if ps else 0}]

        def pstr(side, codes):
            return names.decode(side, codes) if codes else None

        for op in case["ops"]:
            side = op["side"]
            ev = {"ev": "StateOp", "op": op["op"], "exc": ""}
            try:
                with st.lock:
                    if op["op"] == "update":
                        path = pstr(side, op["path"])
                        if ps and side == 0:
                            oid = path
                            prior = pstr(side, op["prior"])
                        else:
                            oid = "oid%d" % op["oid"]
                            prior = None
                        st.update(side, DIRECTORY if op["otype"] == 1 else FILE, oid, path=path,
                                  hash=(b"h%d" % op["hash"]) if op["hash"] else None, exists=bool(op["exists"]), prior_oid=prior)
                    elif op["op"] == "discard":
                        oid = pstr(side, op["path"]) if (ps and side == 0) else "oid%d" % op["oid"]
                        ent = st.lookup_oid(side, oid)
                        if ent is not None:
                            ent.ignore(IgnoreReason.DISCARDED)
                    elif op["op"] == "forget":
                        st.forget()
                    else:
                        raise MachineryError("unknown state op %r" % (op,))
                    st.storage_commit()
            except MachineryError:
                raise
            except BaseException as e:       # RecursionError, AssertionError...: recorded, judged by the trace spec
                ev["exc"] = type(e).__name__
            try:
                ev["st"] = proj.project(st, storage, SyncState)
            except BaseException as e:
                ev["st"] = {"ents": [], "oidx": [], "pidx": [], "pend": [], "dirty": [], "rows": [], "reload": {"ok": 1}}
                ev["exc"] = ev["exc"] or ("projection:" + type(e).__name__)
            tr.append(ev)
        return tr, None
    except MachineryError as e:
        return None, "machinery: %s" % e
    except Exception:
        return None, traceback.format_exc()[-1500:]

"""
Common driver for every check: argument handling, scratch directory, verdict rule, known findings,
evidence file, exit codes.

Exit codes: 0 = property held on everything explored (KNOWN-FINDING lines may be printed),
            1 = VIOLATION property=<id> replay=<path> printed, 2 = machinery failure.
"""
import argparse
import json
import os
import shutil
import sys
import tempfile
import time
import traceback

from .core import VERIF, MachineryError, ASSUMPTIONS_COMMON
from . import tlc as _tlc

EVIDENCE_DIR = os.environ.get("VERIF_EVIDENCE_DIR") or os.path.join(VERIF, "evidence")
REPLAY_DIR = os.environ.get("VERIF_REPLAY_DIR") or os.path.join(VERIF, "replays")
FINDINGS_FILE = os.path.join(VERIF, "known_findings.json")


def load_findings(pid):
    with open(FINDINGS_FILE) as f:
        data = json.load(f)
    found = [x for x in data.get("findings", []) if x.get("property") == pid]
    # staging area used while a check is being built (merged into known_findings.json when integrated)
    stage = os.path.join(VERIF, "findings.d", pid + ".json")
    if os.path.exists(stage):
        with open(stage) as f:
            found += [x for x in json.load(f).get("findings", []) if x.get("property") == pid]
    return found


def case_hash(case):
    """identity of a behaviour: everything that determines the run (the family label does not)"""
    import hashlib
    d = {k: v for k, v in case.items() if k != "family" and not k.startswith("_")}
    return hashlib.sha1(json.dumps(d, sort_keys=True, default=str).encode()).hexdigest()[:14]


def _matches(finding, sig):
    """A finding matches a violation signature when every key of finding['match'] agrees with it.
    A list value in the finding means 'one of'; tags (key 'tags_any') must intersect."""
    for k, v in finding.get("match", {}).items():
        if k == "tags_any":
            if not set(v) & set(sig.get("tags", [])):
                return False
            continue
        if k == "tags_all":
            if not set(v) <= set(sig.get("tags", [])):
                return False
            continue
        sv = sig.get(k)
        if isinstance(v, list):
            if sv not in v:
                return False
        elif sv != v:
            return False
    return True


class Ctx:
    def __init__(self, pid, tier, seed, level="model_checking"):
        self.pid = pid
        self.tier = tier
        self.seed = seed
        self.level = level
        self.scratch = tempfile.mkdtemp(prefix="verif_%s_" % pid)
        self.t0 = time.time()
        self.findings = load_findings(pid)
        self.known_hits = {}          # finding id -> [count, first detail]
        self.violations = []          # unlisted violations: dict(sig, detail, replay)
        self.nonconformances = []
        self.cov = {"states": 0, "transitions": 0, "traces_validated_against_impl": 0, "evaluations": 0,
                    "distinct_nontrivial": 0, "samples": [], "exhaustive": False}
        self.extra = {}
        self.assumptions = list(ASSUMPTIONS_COMMON)
        self.tlc_runs = []
        self.workers = int(os.environ.get("VERIF_WORKERS", os.cpu_count() or 4))

    # ---- TLC -------------------------------------------------------------------------------
    def tlc(self, module, cfg, what=None, count=True, **kw):
        res = _tlc.run_tlc(module, cfg, self.scratch, **kw)
        self.tlc_runs.append({"module": module, "cfg": os.path.basename(cfg), "generated": res.generated,
                              "distinct": res.distinct, "depth": res.depth, "wall_s": round(res.wall, 2),
                              "rc": res.rc, "what": what or ""})
        if count:
            self.cov["states"] += res.distinct
            self.cov["transitions"] += res.generated
        return res

    def model_check(self, module, cfg, what, **kw):
        """Design-level run: must finish with no error and no violated property, else machinery failure
        (a design-level counterexample on the committed spec is a spec bug or an unlisted finding to triage,
        never silently ignored)."""
        res = self.tlc(module, cfg, what=what, **kw)
        if not res.ok:
            raise MachineryError("design-level TLC run %s/%s not clean (violated=%s rc=%s)\n%s"
                                 % (module, cfg, res.violated, res.rc, res.tail(50)))
        return res

    # ---- verdicts ---------------------------------------------------------------------------
    def _baseline(self):
        """Exact failing histories of the unchanged tree (tools/mkbaseline.py): the hazard-stratum findings derived from
        measurements (`auto`) only cover a behaviour that was actually measured failing - another history of the same stratum
        that starts to fail is a violation.  Only exhaustive, seed-independent families reach hazard strata (13.4)."""
        if not hasattr(self, "_bl"):
            self._bl = None
            p = os.path.join(VERIF, "baseline", "%s.json" % self.pid)
            if os.path.exists(p) and not os.environ.get("VERIF_NO_BASELINE"):
                with open(p) as fh:
                    d = json.load(fh)
                if d.get("exact") and self.tier in d.get("tiers", {}):      # only for a tier that was measured itself
                    self._bl = {cl: set(hs) for cl, hs in d["hashes"].items()}
        return self._bl

    def report(self, sig, detail, replay=None):
        """Report a property-predicate failure observed on the real code. `sig` is a dict with at least
        'clause'; it is attributed to a listed finding when one matches, else it is a violation."""
        hh = case_hash(replay) if isinstance(replay, dict) else None
        if hh is not None and os.environ.get("VERIF_BASELINE_OUT"):
            self.__dict__.setdefault("_failed", set()).add((sig.get("clause"), hh))
        for f in self.findings:
            if f.get("status", "open") == "open" and _matches(f, sig):
                if (f.get("auto") or f.get("exact")) and hh is not None and self._baseline() is not None \
                        and hh not in self._baseline().get(sig.get("clause"), ()):
                    continue                      # same stratum, but not a behaviour that was measured failing
                h = self.known_hits.setdefault(f["id"], [0, detail, f])
                h[0] += 1
                return f["id"]
        key = json.dumps(sig, sort_keys=True, default=str)
        for v in self.violations:
            if v["key"] == key:
                v["count"] += 1
                return None
        if len(self.violations) < int(os.environ.get("VERIF_MAX_VIOL", "50")):
            self.violations.append({"sig": sig, "detail": detail, "replay": replay, "key": key, "count": 1})
        else:
            self.extra["violations_truncated"] = self.extra.get("violations_truncated", 0) + 1
        return None

    def nonconf(self, detail):
        if len(self.nonconformances) < 50:
            self.nonconformances.append(detail)
        self.extra["nonconformance_count"] = self.extra.get("nonconformance_count", 0) + 1

    def sample(self, x, limit=6):
        if len(self.cov["samples"]) < limit:
            self.cov["samples"].append(x)

    def count(self, evaluations=0, nontrivial=0, traces=0):
        self.cov["evaluations"] += evaluations
        self.cov["distinct_nontrivial"] += nontrivial
        self.cov["traces_validated_against_impl"] += traces

    def assume(self, *texts):
        for t in texts:
            if t not in self.assumptions:
                self.assumptions.append(t)

    # ---- output -----------------------------------------------------------------------------
    def finish(self):
        if os.environ.get("VERIF_BASELINE_OUT"):
            with open(os.environ["VERIF_BASELINE_OUT"], "w") as fh:
                json.dump(sorted(self.__dict__.get("_failed", set())), fh)
        os.makedirs(EVIDENCE_DIR, exist_ok=True)
        lines = []
        for fid, (n, detail, f) in sorted(self.known_hits.items()):
            lines.append("KNOWN-FINDING: property=%s %s [%s; seen %d time(s) this run]" % (self.pid, f["what"], fid, n))
        rc = 0
        if self.violations:
            os.makedirs(REPLAY_DIR, exist_ok=True)
            rc = 1
            for i, v in enumerate(self.violations[:10]):
                path = os.path.join(REPLAY_DIR, "%s_%s_%d.json" % (self.pid, self.tier, i))
                with open(path, "w") as fh:
                    json.dump({"property": self.pid, "sig": v["sig"], "detail": v["detail"], "case": v["replay"],
                               "seed": self.seed, "tier": self.tier}, fh, indent=1, default=str)
                lines.append("VIOLATION property=%s replay=%s" % (self.pid, path))
                lines.append("  sig=%s count=%d %s" % (json.dumps(v["sig"], default=str), v["count"],
                                                         json.dumps(v["detail"], default=str)[:500]))
        cov = dict(self.cov)
        cov["samples"] = cov["samples"] or ["(none)"]
        cov["rule"] = self.extra.pop("rule", "see DESIGN.md section 6 for this property")
        cov["tlc_runs"] = self.tlc_runs
        cov["known_findings_hit"] = {k: v[0] for k, v in self.known_hits.items()}
        cov["nonconformances"] = self.nonconformances[:20]
        cov.update(self.extra)
        cov["states"] = max(cov["states"], 0)
        ev = {"property_id": self.pid, "tier": self.tier, "seed": self.seed, "level": self.level,
              "coverage": cov, "assumptions": self.assumptions, "wall_s": round(time.time() - self.t0, 2),
              "violations": len(self.violations)}
        if os.environ.get("VERIF_DUMP_VIOL"):
            with open(os.environ["VERIF_DUMP_VIOL"], "w") as fh:
                json.dump([{"sig": v["sig"], "count": v["count"], "case": v["replay"]} for v in self.violations], fh)
        with open(os.path.join(EVIDENCE_DIR, self.pid + ".json"), "w") as fh:
            json.dump(ev, fh, indent=1, default=str)
        for ln in lines:
            print(ln)
        print("%s %s tier=%s seed=%d states=%d transitions=%d traces=%d evaluations=%d nontrivial=%d known=%d violations=%d wall=%.1fs"
              % (self.pid, "FAIL" if rc else "ok", self.tier, self.seed, cov["states"], cov["transitions"],
                 cov["traces_validated_against_impl"], cov["evaluations"], cov["distinct_nontrivial"],
                 len(self.known_hits), len(self.violations), time.time() - self.t0))
        return rc

    def pool(self):
        """ONE pool of forked workers per check run, shared by every family.  Page faults are very expensive on this kind of
        machine (a forked worker copy-on-write-faults ~9k pages before it runs at full speed: seconds per worker, and that was
        paid by every worker of every per-family pool).  The parent's heap is frozen first so the workers' collector never
        walks (and copies) it."""
        if getattr(self, "_pool", None) is None:
            import gc
            import multiprocessing
            from .core import import_repo
            import_repo()
            gc.collect()
            gc.freeze()
            self._pool = multiprocessing.get_context("fork").Pool(self.workers)
        return self._pool

    def cleanup(self):
        if getattr(self, "_pool", None) is not None:
            try:
                self._pool.terminate()
                self._pool.join()
            except Exception:
                pass
            self._pool = None
        shutil.rmtree(self.scratch, ignore_errors=True)


def main(pid, run, replay=None, level="model_checking"):
    ap = argparse.ArgumentParser()
    ap.add_argument("--tier", default=os.environ.get("VERIF_TIER", "quick"), choices=["quick", "thorough"])
    ap.add_argument("--replay", default=None)
    ap.add_argument("--seed", type=int, default=int(os.environ.get("VERIF_SEED", "0") or 0))
    args = ap.parse_args(sys.argv[2:] if len(sys.argv) > 1 and sys.argv[1] == pid else sys.argv[1:])
    ctx = Ctx(pid, args.tier, args.seed, level=level)
    rc = 2
    try:
        # import the working tree ONCE in the parent: every worker pool is forked from here and inherits the modules
        # (importing cloudsync costs seconds - pkg_resources - and used to be paid by every worker of every pool)
        from .core import import_repo
        import_repo()
        try:
            import cloudsync.tests.fixtures.mock_storage, cloudsync.sync.sqlite_storage, cloudsync.providers.filesystem  # noqa
        except Exception:
            pass
        if args.replay:
            with open(args.replay) as fh:
                rep = json.load(fh)
            if replay is None:
                raise MachineryError("no replay support for %s" % pid)
            replay(ctx, rep)
        else:
            run(ctx)
        rc = ctx.finish()
    except MachineryError as e:
        print("MACHINERY-FAILURE %s: %s" % (pid, e))
        rc = 2
    except Exception:
        print("MACHINERY-FAILURE %s: unexpected exception" % pid)
        traceback.print_exc()
        rc = 2
    finally:
        ctx.cleanup()
    sys.exit(rc)

"""
Import guard, environment shims and the virtual clock shared by every check.

Trusted base (stated in every evidence file):
  * /repo is first on sys.path and `cloudsync.__file__` must live under it (the venv holds a copy);
  * `cloudsync.utils.debug_sig` is replaced (the installed xxhash rejects str; it is a logging helper);
  * the `time` attribute of the engine modules is replaced by a virtual clock when asked for.
"""
import os
import sys
import types
import logging
import warnings
import time as _realtime

REPO = os.environ.get("VERIF_REPO", "/repo")
VERIF = os.path.dirname(os.path.dirname(os.path.abspath(__file__)))

ASSUMPTIONS_COMMON = [
    "checks import cloudsync from /repo's working tree (asserted at import time)",
    "cloudsync.utils.debug_sig (logging helper, incompatible with the installed xxhash) is shimmed from outside the repository",
]


class MachineryError(Exception):
    """Raised for failures of the verification machinery itself (exit code 2)."""


def _sig(t, size=3):
    return str(t)[-size:] if t else "0"


_imported = False


def import_repo():
    """Import cloudsync from the working tree, shim debug_sig, silence logging. Idempotent."""
    global _imported
    if _imported:
        return sys.modules["cloudsync"]
    if REPO not in sys.path or sys.path[0] != REPO:
        sys.path.insert(0, REPO)
    os.environ.setdefault("CLOUDSYNC_VERIF", "1")
    warnings.filterwarnings("ignore")
    logging.disable(logging.CRITICAL)
    import cloudsync  # noqa
    import cloudsync.utils  # noqa
    if not os.path.abspath(cloudsync.__file__).startswith(os.path.abspath(REPO) + os.sep):
        raise MachineryError("cloudsync imported from %s, not from %s" % (cloudsync.__file__, REPO))
    # import everything the engine needs so that the shim reaches every module that bound debug_sig
    import cloudsync.sync.state, cloudsync.sync.manager, cloudsync.event, cloudsync.cs  # noqa
    import cloudsync.providers.mock, cloudsync.provider, cloudsync.smartsync  # noqa
    for m in list(sys.modules.values()):
        if m is not None and getattr(m, "__name__", "").startswith("cloudsync") and hasattr(m, "debug_sig"):
            m.debug_sig = _sig
    _imported = True
    return cloudsync


class VClock:
    """Virtual clock: time only moves when somebody sleeps or the driver ticks."""

    def __init__(self, start=1000000.0, eps=0.0001):
        self.t = start
        self.eps = eps

    def time(self):
        self.t += self.eps
        return self.t

    def sleep(self, s):
        if s and s > 0:
            self.t += s

    def monotonic(self):
        return self.time()

    def advance(self, s):
        self.t += s


def fake_time_module(clk):
    m = types.ModuleType("time")
    m.__dict__.update(_realtime.__dict__)
    m.time = clk.time
    m.sleep = clk.sleep
    m.monotonic = clk.monotonic
    return m


def install_clock(clk, runnable=False):
    """Point the engine modules' `time` at the virtual clock (from outside the repository)."""
    import_repo()
    import cloudsync.sync.state as S, cloudsync.sync.manager as M, cloudsync.providers.mock as MK
    import cloudsync.event as E, cloudsync.provider as P, cloudsync.smartsync as SS, cloudsync.runnable as R
    ft = fake_time_module(clk)
    mods = [S, M, MK, E, P, SS]
    if runnable:
        mods.append(R)
    for mod in mods:
        mod.time = ft
    return ft

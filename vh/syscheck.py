"""Shared machinery of the system-level checks (C01-C04, ...): TLC-generated families, execution, judgement."""
import json
import random

from .core import MachineryError
from . import tracecheck as tc
from . import sysfam

UNIVERSES = {"std": ("BaseStd", "FPStd", "DPStd", "std"),
             "mix": ("BaseStd", "FPMix", "DPMix", "std"),
             "empty": ("BaseEmpty", "FPStd", "DPStd", "empty"),
             "two": ("BaseTwo", "FPStd", "DPStd", "two"),
             "conf": ("BaseStd", "FPConf", "DPConf", "std"),
             "out": ("BaseOut", "FPOut", "DPOut", "out"),
             "case": ("BaseStd", "FPCase", "DPCase", "std")}


def generate(ctx, name, sides, maxops, gaps, universe="std", filt="all", simulate=None):
    """All histories of exactly `maxops` user operations on `sides` with schedule tokens from `gaps`."""
    base, fp, dp, basekey = UNIVERSES[universe]
    cfg = tc.gen_cfg(ctx, "Gen_Sys_%s.cfg" % name,
                     "CONSTANTS\n Base <- %s\n FP <- %s\n DP <- %s\n GenSides = {%s}\n Gaps = {%s}\n MaxOps = %d\n Filter = \"%s\"\n"
                     "SPECIFICATION GenSpec\nINVARIANT Emit\nCHECK_DEADLOCK FALSE\n"
                     % (base, fp, dp, ", ".join(str(s) for s in sides), ", ".join('"%s"' % g for g in gaps), maxops, filt))
    if simulate:
        # random behaviours of the same generator (TLC -simulate); the invariant is evaluated on every candidate
        # successor, so roughly (branching x num) histories come out
        res = ctx.tlc("Gen_Sys", cfg, what="simulate family %s" % name, workers=1, timeout=1800, count=False,
                      simulate="num=%d" % simulate[0], depth=maxops + 1, extra=["-seed", str(simulate[1])])
        if res.error:
            raise MachineryError("generator %s failed\n%s" % (name, res.tail(40)))
    else:
        res = ctx.tlc("Gen_Sys", cfg, what="generate family %s" % name, workers=1, timeout=1800)
        if not res.ok:
            raise MachineryError("generator %s failed\n%s" % (name, res.tail(40)))
    hs = tc.parse_histories(res)
    if simulate:
        seen, uniq = set(), []
        for h in hs:
            k = json.dumps(h)
            if k not in seen:
                seen.add(k)
                uniq.append(h)
        hs = uniq
    if not hs:
        raise MachineryError("generator %s produced nothing" % name)
    return [{"base": basekey, "tokens": h, "family": name} for h in hs]


def with_flavors(cases, flavors):
    out = []
    for fl in flavors:
        for c in cases:
            d = dict(c)
            d["flavor"] = fl
            out.append(d)
    return out


def slice_cases(cases, limit, seed=None, key="family"):
    """Slice of an EXHAUSTIVE family.  The order is a fixed pseudo-random permutation that depends only on `key`, never on
    VERIF_SEED, and a smaller limit always selects a prefix of what a larger limit selects: the quick tier's slice is a subset
    of the thorough tier's slice, and the verdict on an unchanged tree does not depend on the seed (DESIGN.md 5.3).  (`seed` is
    accepted for backward compatibility and ignored.)"""
    import os
    import zlib
    if limit is not None and os.environ.get("VERIF_DEV_SCALE"):      # development aid only (never set by the manifest)
        limit = max(20, int(limit * float(os.environ["VERIF_DEV_SCALE"])))
    if limit is None or len(cases) <= limit:
        return cases, True
    order = sorted(range(len(cases)), key=lambda i: zlib.crc32(("%s:%d" % (key, i)).encode()))
    idx = sorted(order[:limit])
    return [cases[i] for i in idx], False


def nontrivial(trace):
    return any(e["ev"] == "ECall" and e.get("res") == 1 and not e.get("noop") for e in trace)


CHUNK = 12000


def run_family(ctx, cases, what, clauses, extra_sig=None, accept=None):
    """Execute + judge a family in chunks (a recorded trace with its tree observations is a few KB of Python objects: a
    200k-case family held at once was tens of GB).  Returns LIGHT traces (tree / table observations dropped)."""
    traces, viols, bad = [], [], set()
    for k in range(0, len(cases), CHUNK):
        sub = cases[k:k + CHUNK]
        tr = sysfam.run_cases(ctx, sub)
        v, b = sysfam.judge(ctx, sub, tr, what, clauses=clauses, extra_sig=extra_sig, accept=accept)
        viols += [(x[0] + k,) + tuple(x[1:]) for x in v]
        bad |= {i + k for i in b}
        traces += [[{kk: vv for kk, vv in e.items() if kk not in ("post", "st")} for e in t] for t in tr]
        del tr
    distinct = {json.dumps([c["flavor"], c["tokens"]]) for c, t in zip(cases, traces) if nontrivial(t)}
    ctx.count(evaluations=len(cases), nontrivial=len(distinct))
    if cases:
        ctx.sample({"flavor": cases[len(cases) // 3]["flavor"], "base": cases[len(cases) // 3]["base"],
                    "tokens": cases[len(cases) // 3]["tokens"]})
    return traces, viols, bad


def replay_case(ctx, rep, clauses, extra_sig=None, accept=None):
    case = rep["case"]
    traces = sysfam.run_cases(ctx, [case])
    sysfam.judge(ctx, [case], traces, "replay", clauses=clauses, extra_sig=extra_sig, accept=accept)
    ctx.count(evaluations=1, nontrivial=2)
    ctx.sample(case)


def run_exemplars(ctx, clauses, extra_sig=None, accept=None):
    """Re-execute the exemplar behaviour of every listed finding of this property (so that a finding that still fails is
    reported as KNOWN-FINDING on every run, whatever slice the tier explores)."""
    cases = [f["exemplar"] for f in ctx.findings if isinstance(f.get("exemplar"), dict) and "tokens" in f["exemplar"]]
    if cases:
        traces = sysfam.run_cases(ctx, cases)
        sysfam.judge(ctx, cases, traces, "exemplars of listed findings", clauses=clauses, extra_sig=extra_sig, accept=accept)
    return len(cases)

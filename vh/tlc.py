"""Thin, strict wrapper around TLC and SANY."""
import os
import re
import subprocess
import time

from .core import VERIF, MachineryError

SPEC_DIR = os.path.join(VERIF, "spec")
JAR = "/opt/veriftools/tla/tla2tools.jar:/opt/veriftools/tla/CommunityModules-deps.jar"


class TLCResult:
    def __init__(self, rc, out, wall):
        self.rc = rc
        self.out = out
        self.wall = wall
        m = re.findall(r"(\d+) states generated, (\d+) distinct states found, (\d+) states left on queue", out)
        self.generated = int(m[-1][0]) if m else 0
        self.distinct = int(m[-1][1]) if m else 0
        self.left = int(m[-1][2]) if m else 0
        m = re.search(r"The depth of the complete state graph search is (\d+)", out)
        self.depth = int(m.group(1)) if m else None
        self.violated = re.findall(r"Invariant (\S+) is violated", out) + \
            re.findall(r"Action property (\S+) is violated", out) + \
            (["<temporal>"] if "Temporal properties were violated" in out else []) + \
            (["<deadlock>"] if "Deadlock reached" in out else [])
        self.error = ("Error:" in out) and not self.violated
        self.finished = "Model checking completed" in out or "Finished in" in out

    @property
    def ok(self):
        return self.rc == 0 and not self.violated and not self.error

    def printed(self):
        """Values printed by PrintT (one per line unless they contain line breaks)."""
        import json
        res = []
        for line in self.out.splitlines():
            if line.startswith('"@@'):
                try:
                    res.append(json.loads(line)[2:])
                except ValueError:
                    raise MachineryError("unparsable PrintT line from TLC: %r" % line[:200])
        return res

    def coverage_zero(self):
        """Names of actions reported with zero distinct states under -coverage."""
        return re.findall(r"<(\w+) line \d+, col \d+ to line \d+, col \d+ of module \w+>: 0:0", self.out)

    def tail(self, n=40):
        return "\n".join(self.out.splitlines()[-n:])


def run_tlc(module, cfg, scratch, workers=None, env=None, simulate=None, depth=None,
            timeout=1800, extra=(), coverage=False, dfs=False, cwd=None, heap="6g"):
    """Run TLC on /verif/spec/<module>.tla with config <cfg> (path relative to spec dir or absolute)."""
    metadir = os.path.join(scratch, "meta_%s_%d" % (module, int(time.time() * 1000) % 10000000))
    os.makedirs(metadir, exist_ok=True)
    java = ["java", "-XX:+UseParallelGC", "-Xmx" + heap]
    if (workers or 99) <= 2:
        java += ["-XX:ParallelGCThreads=2", "-XX:CICompilerCount=2"]
    if dfs:
        java.append("-Dtlc2.tool.queue.IStateQueue=StateDeque")
    cmd = java + ["-cp", JAR, "tlc2.TLC", "-metadir", metadir, "-noGenerateSpecTE",
                  "-workers", str(workers or (os.cpu_count() or 4)), "-config", cfg]
    if simulate:
        cmd += ["-simulate", simulate]
    if depth:
        cmd += ["-depth", str(depth)]
    if coverage:
        cmd += ["-coverage", "1"]
    cmd += list(extra) + [module + ".tla"]
    e = dict(os.environ)
    e.pop("JAVA_TOOL_OPTIONS", None)
    if env:
        e.update({k: str(v) for k, v in env.items()})
    slot = _acquire_slot(int(workers or (os.cpu_count() or 4)))
    t0 = time.time()
    try:
        p = subprocess.run(cmd, cwd=cwd or SPEC_DIR, env=e, stdout=subprocess.PIPE, stderr=subprocess.STDOUT,
                           timeout=timeout, text=True, errors="replace")
    except subprocess.TimeoutExpired as ex:
        raise MachineryError("TLC timed out after %ss on %s/%s" % (timeout, module, cfg)) from ex
    finally:
        _release_slot(slot)
    res = TLCResult(p.returncode, p.stdout, time.time() - t0)
    return res


# ---- machine-wide limit on concurrent TLC JVMs (several checks may run at once; dozens of JVMs thrash) ----------
_SLOT_DIR = "/tmp/verif_tlc_slots"


def _acquire_slot(weight):
    """Take 1 slot (small JVM) or several (a many-worker model-checking run) out of os.cpu_count() slots."""
    import fcntl
    n = os.cpu_count() or 4
    need = 1 if weight <= 2 else min(n, max(2, weight // 2))
    try:
        os.makedirs(_SLOT_DIR, exist_ok=True)
    except OSError:
        return []
    held = []
    deadline = time.time() + 3600
    while len(held) < need and time.time() < deadline:
        for i in range(n):
            if len(held) >= need:
                break
            if any(h[0] == i for h in held):
                continue
            try:
                fh = open(os.path.join(_SLOT_DIR, "slot%d" % i), "w")
                fcntl.flock(fh, fcntl.LOCK_EX | fcntl.LOCK_NB)
                held.append((i, fh))
            except OSError:
                try:
                    fh.close()
                except Exception:
                    pass
        if len(held) < need:
            if held and need > 1:       # do not sit on partial allocations (deadlock between big runs)
                for _, fh in held:
                    fh.close()
                held = []
            time.sleep(0.3)
    return held


def _release_slot(held):
    for _, fh in held or []:
        try:
            fh.close()
        except Exception:
            pass


def must_ok(res, what):
    """Raise a machinery error unless TLC finished cleanly (used for trace runs, where TLC itself must not fail)."""
    if res.error or (res.rc not in (0,) and not res.violated):
        raise MachineryError("TLC failed on %s (rc=%s):\n%s" % (what, res.rc, res.tail(60)))
    return res


def sany(module):
    p = subprocess.run(["java", "-cp", JAR, "tla2sany.SANY", module + ".tla"], cwd=SPEC_DIR,
                       stdout=subprocess.PIPE, stderr=subprocess.STDOUT, text=True)
    bad = p.returncode != 0 or "*** Errors" in p.stdout or "Fatal errors" in p.stdout or "Could not find module" in p.stdout
    return (not bad), p.stdout

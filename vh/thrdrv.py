"""
Threaded driver (C15): the engine runs as in production (cs.start(): one sync thread, one event thread per side, a
notification thread) in REAL time while user threads change both sides and an application thread calls public methods.
Every call into SyncState.updated() - the single mutation funnel - is recorded with the calling thread, the call site and
whether that thread owns the state lock.  Runs in its own process (no virtual clock).
"""
import io
import random
import sys
import threading
import time
import traceback

from .core import import_repo, MachineryError
from .sysdrv import Names, Contents, FLAVORS, DIR, ROOT


def execute(case):
    try:
        import_repo()
        from cloudsync import CloudSync
        from cloudsync.smartsync import SmartCloudSync
        from cloudsync.sync.state import SyncState
        from cloudsync.smartsync import SmartSyncState
        from cloudsync.providers.mock import MockProvider
        from cloudsync.event import EventManager
        from cloudsync.tests.fixtures.mock_storage import MockStorage
        rng = random.Random(case["seed"])
        sys.setswitchinterval(rng.choice([1e-5, 5e-5, 2e-4, 1e-3]))
        smart = bool(case.get("smart"))
        fl = FLAVORS[case["flavor"]]
        names = Names(("local", "remote"))
        contents = Contents()
        roots = ("/local", "/remote")
        eng, usr = [], []
        for s in (0, 1):
            p = MockProvider(fl[s][0], fl[s][1], filter_events=fl[s][2])
            p.connect({"key": "val"})
            u = MockProvider(fl[s][0], fl[s][1])
            u.connect({"key": "val"})
            u._set_mock_fs(p._mock_fs)
            u.mkdir(roots[s])
            eng.append(p)
            usr.append(u)
        prims = {}
        plock = threading.Lock()
        SBase = SmartSyncState if smart else SyncState
        tl = threading.local()

        def note(site, key, owned):
            k = (threading.current_thread().name.split("-")[0], site, key, owned)
            with plock:
                prims[k] = prims.get(k, 0) + 1

        class TracedLock:
            """The state lock, observed: per thread, the nesting depth, and - inside an atomic step (a `scope`: one entry
            synchronisation, one event application, one on-demand request) - every full release.  A step that was entered with
            the lock held and lets go of it, or that takes the lock from outside more than once, is two critical sections, not
            one (observed per call site, not by timing)."""
            def __init__(self, inner):
                self._inner = inner

            def acquire(self, blocking=True, timeout=-1):
                r = self._inner.acquire(blocking, timeout)
                if r:
                    tl.depth = getattr(tl, "depth", 0) + 1
                    if tl.depth == 1:
                        for sc_ in getattr(tl, "scopes", []):
                            sc_["outer"] += 1
                            if sc_["outer"] > 1 and not sc_["flagged"]:
                                sc_["flagged"] = True
                                note(sc_["name"], "lock-taken-again-mid-step", 0)
                return r

            def release(self):
                tl.depth = getattr(tl, "depth", 0) - 1
                if tl.depth == 0:
                    for sc_ in getattr(tl, "scopes", []):
                        if sc_["entered"] > 0 and not sc_["flagged"]:
                            sc_["flagged"] = True
                            fr = traceback.extract_stack(limit=6)
                            note(sc_["name"] + ":" + ">".join(f.name for f in fr[:-1])[-80:], "lock-released-mid-step", 0)
                self._inner.release()

            def __enter__(self):
                self.acquire()
                return self

            def __exit__(self, *a):
                self.release()

            def _is_owned(self):
                return self._inner._is_owned()

        class scope:
            def __init__(self, name):
                self.name = name

            def __enter__(self):
                if not hasattr(tl, "scopes"):
                    tl.scopes = []
                tl.scopes.append({"name": self.name, "entered": getattr(tl, "depth", 0), "outer": 0, "flagged": False})
                note(self.name, "step-observed", 1)

            def __exit__(self, *a):
                tl.scopes.pop()

        class TracedState(SBase):
            def __init__(self, *a, **kw):
                SBase.__init__(self, *a, **kw)
                self.lock = TracedLock(self.lock)

            def updated(self, ent, side, key, val):
                owned = 1 if self.lock._is_owned() else 0
                fr = traceback.extract_stack(limit=7)
                site = ">".join(f.name for f in fr[:-1] if f.name not in ("__setattr__", "updated"))[-120:]
                k = (threading.current_thread().name.split("-")[0], site, key, owned)
                with plock:
                    prims[k] = prims.get(k, 0) + 1
                return SBase.updated(self, ent, side, key, val)

        EventManager._provider_guard.clear()
        holder = {}

        class TracedStorage(MockStorage):
            """rows of the sync state's own tag are part of the shared state: written only by a thread that owns the lock
            (cursor / walk marker rows belong to one event manager and are left out)"""
            def _obs(self, op, tag):
                st = holder.get("state")
                if st is not None and tag == st._tag:
                    fr = traceback.extract_stack(limit=6)
                    note("storage." + op + "<" + ">".join(f.name for f in fr[:-2])[-80:], "storage-row", 1 if st.lock._is_owned() else 0)

            def create(self, tag, serialization):
                self._obs("create", tag)
                return MockStorage.create(self, tag, serialization)

            def update(self, tag, serialization, eid):
                self._obs("update", tag)
                return MockStorage.update(self, tag, serialization, eid)

            def delete(self, tag, eid):
                self._obs("delete", tag)
                return MockStorage.delete(self, tag, eid)

        from cloudsync.sync.manager import SyncManager
        import cloudsync.smartsync as ssm
        MBase = ssm.SmartSyncManager if smart else SyncManager
        EBase = ssm.SmartEventManager if smart else EventManager

        class TracedSmgr(MBase):
            def _sync_one_entry(self, sync):
                with scope("sync_step"):
                    return MBase._sync_one_entry(self, sync)

        class TracedEmgr(EBase):
            def _process_event(self, event, from_walk=False):
                with scope("event_apply"):
                    return EBase._process_event(self, event, from_walk)

        if smart:
            class TracedSmartCS(SmartCloudSync):
                def _smart_sync_ent(self, ent):
                    with scope("smart_request"):
                        return SmartCloudSync._smart_sync_ent(self, ent)

            cs = TracedSmartCS.__new__(TracedSmartCS)
            CloudSync.__init__(cs, tuple(eng), roots, TracedStorage({}), sleep=None, state_class=TracedState,
                               smgr_class=TracedSmgr, emgr_class=TracedEmgr)
        else:
            cs = CloudSync(tuple(eng), roots, TracedStorage({}), sleep=None, state_class=TracedState,
                           smgr_class=TracedSmgr, emgr_class=TracedEmgr)
        holder["state"] = cs.state
        events = []

        def tree(side):
            out = [[[ROOT], DIR]]
            prov = usr[side]

            def rec(oid, rel):
                for e in sorted(prov.listdir(oid), key=lambda x: x.name):
                    r = rel + "/" + e.name
                    if e.otype.value == "dir":
                        out.append([names.encode(side, r), DIR])
                        rec(e.oid, r)
                    else:
                        b = io.BytesIO()
                        prov.download(e.oid, b)
                        out.append([names.encode(side, r), contents.cid(b.getvalue())])
            rec(prov.info_path(roots[side]).oid, roots[side])
            out.sort()
            return out

        events.append({"ev": "Base", "post": [tree(0), tree(1)], "flavor": case["flavor"], "aging_ms": 0})
        cs.start()
        errors = []

        def user(side, ops):
            r = random.Random(case["seed"] * 7 + side)
            for op in ops:
                time.sleep(r.uniform(0, 0.01))
                try:
                    p = names.decode(side, op[1])
                    if op[0] == "create":
                        usr[side].create(p, io.BytesIO(contents.data(op[2])))
                    elif op[0] == "mkdir":
                        usr[side].mkdir(p)
                    else:
                        raise MachineryError("threaded histories only create: %r" % (op,))
                except MachineryError:
                    raise
                except Exception as e:
                    errors.append(repr(e))

        stop_app = threading.Event()

        def app():
            r = random.Random(case["seed"] * 13)
            while not stop_app.is_set():
                try:
                    c = r.choice(case.get("app_calls", ["busy", "change_count", "walk"]))
                    if c == "busy":
                        cs.busy
                    elif c == "change_count":
                        cs.change_count
                    elif c == "walk":
                        cs.walk(side=r.choice((0, 1)))
                    elif c == "smart_listdir" and smart:
                        list(cs.smart_listdir_path(roots[0]))
                    elif c == "smart_sync" and smart:
                        try:
                            cs.smart_sync_path(roots[1] + "/" + r.choice(["a", "b", "e", "f"]), 1)
                        except Exception:
                            pass
                    elif c == "smart_unsync" and smart:
                        try:
                            cs.smart_unsync_path(roots[1] + "/" + r.choice(["a", "b", "e", "f"]), 1)
                        except Exception:
                            pass
                except Exception as e:      # the application-facing accessors may raise while a provider reconnects
                    pass
                time.sleep(r.uniform(0, 0.005))

        ths = [threading.Thread(target=user, args=(s, case["ops"][s]), name="user%d" % s) for s in (0, 1)]
        ath = threading.Thread(target=app, name="app")
        for t in ths + [ath]:
            t.start()
        for t in ths:
            t.join()
        # wait for the engine to report nothing to do (generous real-time bound; a timeout is recorded, not judged here)
        deadline = time.time() + case.get("timeout", 30)
        idle = 0
        quiet = False
        while time.time() < deadline:
            try:
                b = cs.busy
            except Exception:
                b = True
            idle = 0 if b else idle + 1
            if idle >= 5:
                quiet = True
                break
            time.sleep(0.05)
        if smart:
            # deterministic tour of the on-demand public methods from an application thread (every remote file the users made)
            def appseq():
                for op in case["ops"][1]:
                    if op[0] != "create":
                        continue
                    rp = names.decode(1, op[1])
                    lp = roots[0] + rp[len(roots[1]):]
                    calls = [lambda: cs.smart_sync_path(rp, 1), lambda: cs.smart_info_path(lp),
                             lambda: list(cs.smart_listdir_path(roots[0])), lambda: cs.smart_unsync_path(rp, 1),
                             lambda: cs.smart_sync_oid(usr[1].info_path(rp).oid), lambda: cs.smart_info_oid(usr[1].info_path(rp).oid),
                             lambda: cs.smart_unsync_oid(usr[1].info_path(rp).oid), lambda: cs.smart_sync_path(lp, 0)]
                    for c in calls:
                        try:
                            c()
                        except Exception:       # a request may legitimately be refused (not found yet, ...)
                            pass
                        time.sleep(0.002)
            sq = threading.Thread(target=appseq, name="appseq")
            sq.start()
            sq.join()
            t_end = time.time() + 10
            while time.time() < t_end:
                try:
                    if not cs.busy:
                        break
                except Exception:
                    pass
                time.sleep(0.05)
        stop_app.set()
        ath.join()
        cs.stop(forever=True)
        for side in (0, 1):
            for op in case["ops"][side]:
                events.append({"ev": "UserOp", "side": side, "op": op[0], "path": op[1], "dst": [],
                               "cid": op[2] if op[0] == "create" else 0, "ok": 1, "now": 0})
        for (th, site, key, owned), n in sorted(prims.items()):
            events.append({"ev": "Prim", "thread": th, "site": site, "key": key, "owned": owned, "count": n})
        # on-demand runs are judged on lock discipline only (what ends up where depends on what was requested when)
        events.append({"ev": "Note" if smart else ("Quiet" if quiet else "NoQuiet"), "rounds": 0, "post": [tree(0), tree(1)]})
        if errors:
            return None, "user operation failed: %s" % errors[:3]
        return events, None
    except MachineryError as e:
        return None, "machinery: %s" % e
    except Exception:
        return None, traceback.format_exc()[-1500:]

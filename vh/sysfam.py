"""
Running families of system-level behaviours against the real engine and judging them with Trace_Sys (TLC).

A case is a dict: {"flavor": str, "base": [[path, cell], ...], "tokens": [...], optional "resolver", "aging",
"storage", "family"}.  `execute(case)` returns the recorded trace; `judge(ctx, cases, traces, ...)` validates
a batch and reports every failing clause with the stratum signature (clause, flavour, hazard tags).
"""
import multiprocessing
import random
import traceback

from .core import MachineryError
from . import tracecheck as tc

BASES = {
    "empty": [],
    "file": [[[10, 1], 1]],
    "dirfile": [[[10, 3], 0], [[10, 3, 2], 2]],
    "std": [[[10, 1], 1], [[10, 3], 0], [[10, 3, 2], 2]],
    "two": [[[10, 1], 1], [[10, 2], 2]],
    "out": [[[10, 1], 1], [[10, 3], 0], [[10, 3, 2], 2], [[11], 0], [[11, 1], 7], [[12], 0], [[12, 2], 8], [[6], 9]],
}


def _prio_fn(table):
    """table: {name code (str): priority}; the application's prioritize(side, path) looks at the leaf name."""
    if not table:
        return None
    from .sysdrv import NAMES

    def fn(side, path):
        leaf = path.rstrip("/").split("/")[-1]
        for code, name in NAMES.items():
            if name == leaf and str(code) in table:
                return table[str(code)]
        return 0
    return fn


def execute(case):
    """Runs in a worker process. Returns (trace, error string or None)."""
    if case.get("mangle"):
        # paired run (C14): the same history and schedule with prompt in-order delivery, then with a mangled stream
        plain = dict(case)
        m = plain.pop("mangle")
        a, err = execute(plain)
        if err:
            return None, err
        if m[0] == "split":              # per-event batching: every batch split into single-event deliveries
            toks = []
            for t in plain["tokens"]:
                toks += ([[t[0], 1]] * 4) if (t[0] in ("EL", "ER") and t[1] == 0) else [t]
            b, err = execute(dict(plain, tokens=toks))
        else:
            b, err = execute(dict(plain, _mangle=m))
        if err:
            return None, err
        return a + [{"ev": "SecondRun"}] + b + [{"ev": "Compare"}], None
    from .sysdrv import System, make_mangler
    try:
        s = System(case.get("flavor", "oid/oid"), storage=case.get("storage", "mock"),
                   resolver=tuple(case["resolver"]) if case.get("resolver") else None,
                   aging=case.get("aging", 0.0), whole=case.get("whole", False),
                   root_by_oid=case.get("root_by_oid", False), decline=case.get("decline"),
                   prioritize=_prio_fn(case.get("prio")), smart=case.get("smart", False))
        s.auto_names = case.get("auto") or []
        if case.get("coarse"):
            # coarse wall clock (the low-resolution timer state.py's mark_changed talks about): time.time() returns the same
            # value until the schedule advances the clock (T tokens, quiescence rounds, sleeps)
            s.clk.eps = 0.0
        base = case["base"]
        if isinstance(base, str):
            base = BASES[base]
        s.begin(base, case.get("base_side", 0))
        s.project_state = bool(case.get("project_state"))
        if case.get("_mangle"):
            kind, sides = case["_mangle"]
            if kind == "walk":           # a full walk of both roots is queued before every intake (replayed tree)
                s.walk_before_intake = True
            else:
                for sd in sides:
                    s.eng[sd].mangle = make_mangler(kind, s, sd)
        if case.get("kase"):
            d = {"ev": "Case"}
            d.update(case["kase"])
            s.rec.events.append(d)
        s.run_tokens(case["tokens"])
        if s.inj is not None:
            s.rec.ev("Note", ncalls=s.inj["n"], nmut=s.inj["nmut"], nsw=(s.storage.nwrites - s.inj.get("sw0", 0)) if s.storage else 0,
                     fired=1 if s.inj.get("fired") else 0)
        try:
            s.cs.done()
        except Exception:
            pass
        return s.rec.events, None
    except MachineryError as e:
        return None, "machinery: %s" % e
    except Exception:
        return None, traceback.format_exc()[-1500:]


def run_cases(ctx, cases, chunksize=None):
    """Execute all cases on a process pool; returns list of traces (same order)."""
    if not cases:
        return []
    res = ctx.pool().map(execute, cases, chunksize=chunksize or max(1, min(50, len(cases) // (ctx.workers * 4))))
    traces = []
    for case, (tr, err) in zip(cases, res):
        if err is not None:
            raise MachineryError("driver failed on case %r:\n%s" % (case, err))
        traces.append(tr)
    return traces


def judge(ctx, cases, traces, what, clauses=None, extra_sig=None, cfg="Trace_Sys.cfg", module="Trace_Sys", accept=None):
    """Validate traces with TLC; report clause failures (restricted to `clauses` when given)."""
    viols, done, nonconf = tc.validate(ctx, module, cfg, traces, what, extended=True, min_batch=1500)
    bad = set()
    for ti, line, clause, rest in viols:
        if clauses is not None and clause not in clauses:
            continue
        tags = sorted(rest[0]) if rest else []
        case = cases[ti]
        if accept is not None and not accept(case, clause):
            continue
        sig = {"clause": clause, "flavor": case.get("flavor", "oid/oid"), "tags": tags}
        if extra_sig:
            sig.update(extra_sig(case, traces[ti], line))
        ctx.report(sig, {"case": _short(case), "line": line, "event": _strip(traces[ti][line - 1])}, replay=case)
        bad.add(ti)
    for ti, line, whatnc in nonconf:
        ctx.nonconf({"what": whatnc, "case": _short(cases[ti]), "line": line})
    return viols, bad


def _strip(ev):
    return {k: v for k, v in ev.items() if k != "post"}


def _short(case):
    return {k: v for k, v in case.items() if k in ("flavor", "base", "tokens", "resolver", "family", "aging", "kase", "prio", "mangle", "smart", "auto", "base_side", "coarse")}


# ---- seeded random histories (deeper than the exhaustive family) -------------------------------------------
NAMES = [1, 2, 3, 4]


def random_case(rng, flavor, nops, sides=(0, 1), base="std", maxdepth=2):
    """Random user history with random engine tokens in between, generated against a shadow tree."""
    tree = {tuple(p): c for p, c in BASES[base]}
    tree[(10,)] = 0
    shadow = [dict(tree), dict(tree)]
    toks = []
    cid = [10]

    def fresh():
        cid[0] += 1
        return cid[0]

    for _ in range(nops):
        s = rng.choice(sides)
        t = shadow[s]
        dirs = [p for p, c in t.items() if c == 0 and len(p) < 1 + maxdepth]
        files = [p for p, c in t.items() if c != 0]
        subdirs = [p for p in dirs if len(p) > 1]
        kinds = ["create", "mkdir"]
        if files:
            kinds += ["write", "delete", "rename"]
        if subdirs:
            kinds += ["rmdir", "rename_dir"]
        k = rng.choice(kinds)
        op = None
        if k == "create":
            p = rng.choice(dirs) + (rng.choice(NAMES),)
            if p not in t:
                op = ["create", list(p), fresh()]
                t[p] = op[2]
        elif k == "mkdir":
            p = rng.choice(dirs) + (rng.choice(NAMES),)
            if p not in t:
                op = ["mkdir", list(p)]
                t[p] = 0
        elif k == "write":
            p = rng.choice(files)
            op = ["write", list(p), fresh()]
            t[p] = op[2]
        elif k == "delete":
            p = rng.choice(files)
            op = ["delete", list(p)]
            del t[p]
        elif k == "rmdir":
            p = rng.choice(subdirs)
            if not any(q != p and q[:len(p)] == p for q in t):
                op = ["rmdir", list(p)]
                del t[p]
        elif k in ("rename", "rename_dir"):
            p = rng.choice(files if k == "rename" else subdirs)
            cand = [d for d in dirs if d[:len(p)] != p]
            q = rng.choice(cand) + (rng.choice(NAMES),)
            if q not in t and len(q) <= 1 + maxdepth + (0 if k == "rename" else 0):
                op = ["rename", list(p), list(q)]
                moved = {x: c for x, c in t.items() if x[:len(p)] == p}
                for x in moved:
                    del t[x]
                for x, c in moved.items():
                    t[q + x[len(p):]] = c
        if op is None:
            continue
        toks.append(["U", s, op])
        for _ in range(rng.randint(0, 3)):
            toks.append(rng.choice([["EL", 0], ["ER", 0], ["S"], ["EL", 1], ["ER", 1], ["T", 1]]))
        if rng.random() < 0.15:
            toks.append(["Q"])
            shadow = None           # the shadow trees are only a generator aid; after a sync they are re-read
            break
    toks.append(["Q"])
    toks.append(["AQ"])
    return {"flavor": flavor, "base": base, "tokens": toks, "family": "random"}

"""
System-level driver: steps the real CloudSync (real SyncState, SyncManager, EventManagers, MockProviders,
storage) along a behaviour (list of tokens) under a virtual clock and records one trace event per
specification action.  It executes and records; it never judges.

Tokens (JSON arrays, produced by Gen_Sys.tla or by the seeded random generator):
  ["U", side, [op, ...]]   user operation through a second provider instance sharing the side's MockFS
        ops: ["create", path, cid] ["write", path, cid] ["rename", path, path] ["delete", path]
             ["mkdir", path] ["rmdir", path]          paths = arrays of name codes, absolute (first = root code)
  ["EL", k] ["ER", k]      event intake on one side, at most k events (0 = everything pending)
  ["S"]                    one SyncManager.do()
  ["T", n]                 advance the virtual clock by n half-ageing units
  ["Q"]                    fair rounds until the engine reports nothing to do (bounded)
  ["X", variant]           stop the engine, (offline ops follow as U tokens), ["R"] restarts it
  ["R", variant]           restart over the same storage and providers (intact | cursorRemoved | cursorRejected)
  ["F", k, kind]           the k-th engine provider call from now raises kind
  ["K", kind, k]           crash: kind "storage" before the k-th storage write, "provider" after the k-th provider write
  ["C", side, path]        reads of that object raise CloudCorruptError from now on
"""
import io
import re
import itertools

from .core import import_repo, VClock, install_clock, MachineryError

ROOT = 10          # name code of the sync root folder on either side
NAMES = {1: "a", 2: "b", 3: "d", 4: "e", 5: "A", 6: "f", 7: "D", 10: None, 11: "other", 12: None}
DIR = 0
UNKNOWN_CONTENT = 9999

# result classes of provider calls (integer codes, shared with the specification)
OK, R_EXISTS, R_NOTFOUND, R_TEMP, R_DISC, R_TOKEN, R_SPACE, R_NAME, R_CORRUPT, R_OTHER = 1, 2, 3, 4, 5, 6, 7, 8, 9, 10

FLAVORS = {
    "oid/oid": ((False, True, False), (False, True, False)),
    "path/oidf": ((True, True, False), (False, True, True)),
    "oidf/path": ((False, True, True), (True, True, False)),
    "path/path": ((True, True, False), (True, True, False)),
    "oidci/oid": ((False, False, False), (False, True, False)),
    "path/oidci": ((True, True, False), (False, False, False)),
    "pathci/oid": ((True, False, False), (False, True, False)),
}


class Crash(BaseException):
    """Simulated process death (BaseException so that no engine handler swallows it... except the loop's own)."""


class Names:
    """name <-> small integer code; '.conflicted' variants get codes >= 100 (100*k + base code)."""

    def __init__(self, roots):
        self.roots = roots      # (local root name, remote root name)
        self.dyn = {}

    def code(self, side, comp, top):
        if top:
            if comp == self.roots[side]:
                return ROOT
            if comp == self.roots[side] + "X":
                return 12
        for k, v in NAMES.items():
            if v == comp:
                return k
        if comp in self.dyn:
            return self.dyn[comp]
        m = re.match(r"^(.*?)((?:\.conflicted\d*)+)(.*)$", comp)
        base = None
        if m:
            plain = m.group(1) + m.group(3)
            for k, v in NAMES.items():
                if v == plain:
                    base = k
        if base is not None:
            idx = 1 + len([1 for c in self.dyn.values() if c >= 100 and c % 100 == base])
            self.dyn[comp] = 100 * idx + base
        elif "conflicted" in comp:
            self.dyn[comp] = 100 * (1 + len(self.dyn)) + 99
        else:
            self.dyn[comp] = 50 + len([v for v in self.dyn.values() if v < 100])
        return self.dyn[comp]

    def encode(self, side, path):
        comps = [c for c in path.split("/") if c]
        return [self.code(side, c, i == 0) for i, c in enumerate(comps)]

    def decode(self, side, seq):
        out = []
        for i, c in enumerate(seq):
            if c == ROOT:
                out.append(self.roots[side])
            elif c == 12:
                out.append(self.roots[side] + "X")
            elif c in NAMES and NAMES[c]:
                out.append(NAMES[c])
            else:
                inv = {v: k for k, v in self.dyn.items()}
                if c not in inv:
                    raise MachineryError("cannot decode name code %r" % c)
                out.append(inv[c])
        return "/" + "/".join(out)


class Contents:
    """content id <-> bytes.  Every user write uses a fresh id; sizes vary by id to cover size classes."""

    def __init__(self):
        self.by_bytes = {}

    def data(self, cid):
        pad = [0, 3, 700, 1500, 3000][cid % 5]
        b = (b"c%d;" % cid) + b"x" * pad
        if cid == 5:
            b = b""                 # the empty file
        self.by_bytes[b] = cid
        return b

    def register(self, b, cid):
        self.by_bytes[bytes(b)] = cid

    def cid(self, b):
        return self.by_bytes.get(bytes(b), UNKNOWN_CONTENT)


def _classify(e):
    from cloudsync import exceptions as ex
    table = [(ex.CloudFileExistsError, R_EXISTS), (ex.CloudFileNotFoundError, R_NOTFOUND),
             (ex.CloudOutOfSpaceError, R_SPACE), (ex.CloudTemporaryError, R_TEMP),
             (ex.CloudDisconnectedError, R_DISC), (ex.CloudTokenError, R_TOKEN),
             (ex.CloudFileNameError, R_NAME), (ex.CloudCorruptError, R_CORRUPT)]
    for cls, code in table:
        if isinstance(e, cls):
            return code
    return R_OTHER


MUTATING = ("create", "upload", "rename", "mkdir", "delete")
READING = ("download", "info_oid", "info_path", "listdir", "exists_oid", "exists_path", "hash_oid")


def make_engine_provider(sysobj, side, oid_is_path, case_sensitive, filter_events):
    """A MockProvider whose public API calls are logged as engine calls (ECall) with fault/crash hooks."""
    import_repo()
    from cloudsync.providers.mock import MockProvider
    from cloudsync import exceptions as ex

    class EngineProvider(MockProvider):
        def __init__(self):
            super().__init__(oid_is_path, case_sensitive, filter_events=filter_events)
            self._vdepth = 0
            self._vside = side
            self.max_events = 0          # 0 = unlimited; otherwise events() stops after that many
            self.mangle = None           # optional function(list of events) -> list of events
            self.corrupt_paths = {}      # path -> bytes that cannot be read (a rewritten file is readable again)

        # -- helpers -------------------------------------------------------------------------------
        def _path_of(self, oid):
            o = self._mock_fs.get(oid)
            return o.path if (o is not None and o.exists and o.path) else None

        def _fault(self, name):
            inj = sysobj.inj
            if inj is None:
                return
            inj["n"] += 1
            if inj.get("fail_at") == inj["n"]:
                kind = inj["kind"]
                inj["fired"] = (self._vside, name, inj["n"])
                sysobj.rec.ev("Fault", side=self._vside, call=name, kind=kind, n=inj["n"])
                if kind == R_DISC:
                    self.disconnect()
                    raise ex.CloudDisconnectedError("injected")
                raise {R_TEMP: ex.CloudTemporaryError, R_TOKEN: ex.CloudTokenError,
                       R_SPACE: ex.CloudOutOfSpaceError}[kind]("injected")

        def _stuck(self, name, info):
            """C10 'a file that keeps failing': every engine write addressed to the stuck path on this side raises a temporary
            error ("locked") until the schedule says Unstick."""
            st = sysobj.stuck
            if st is None or st["side"] != self._vside or name not in ("create", "upload", "mkdir", "rename"):
                return
            if info.get("path") == st["path"]:
                st["hits"] += 1
                sysobj.rec.ev("Fault", side=self._vside, call=name, kind=R_TEMP, n=-st["hits"])
                raise ex.CloudTemporaryError("injected: locked")

        def _wrap(self, name, args, fn, pre=None):
            if self._vdepth or sysobj.in_user:
                return fn()
            self._vdepth += 1
            info = {"side": self._vside, "op": name}
            info.update(pre or {})
            res = OK
            try:
                self._stuck(name, info)
                self._fault(name)
                r = fn()
                return r
            except Crash:
                raise
            except Exception as e:
                res = _classify(e)
                raise
            finally:
                self._vdepth -= 1
                if name in MUTATING:
                    info["res"] = res
                    sysobj.rec.ecall(info)
                    if res == OK and sysobj.inj is not None:
                        sysobj.inj["nmut"] += 1
                        if sysobj.inj.get("crash_after_pw") == sysobj.inj["nmut"]:
                            sysobj.inj["crash_after_pw"] = None
                            raise Crash()
                sysobj.mid_tick()         # a user operation armed for "after the k-th engine call" happens here, mid-step

        # -- mutating API ----------------------------------------------------------------------------
        def create(self, path, file_like, metadata=None):
            data = file_like.read()
            pre = {"path": sysobj.names.encode(self._vside, path), "cid": sysobj.contents.cid(data), "src": []}
            return self._wrap("create", None, lambda: MockProvider.create(self, path, io.BytesIO(data), metadata), pre)

        def upload(self, oid, file_like, metadata=None):
            data = file_like.read()
            p = self._path_of(oid)
            pre = {"path": sysobj.names.encode(self._vside, p) if p else [], "cid": sysobj.contents.cid(data), "src": []}
            return self._wrap("upload", None, lambda: MockProvider.upload(self, oid, io.BytesIO(data), metadata), pre)

        def rename(self, oid, path):
            p = self._path_of(oid)
            pre = {"src": sysobj.names.encode(self._vside, p) if p else [],
                   "path": sysobj.names.encode(self._vside, path), "cid": 0}
            return self._wrap("rename", None, lambda: MockProvider.rename(self, oid, path), pre)

        def mkdir(self, path):
            existed = self._mock_fs.get(self.normalize_path(path))
            pre = {"path": sysobj.names.encode(self._vside, path), "cid": 0, "src": [],
                   "noop": 1 if (existed is not None and existed.exists) else 0}
            return self._wrap("mkdir", None, lambda: MockProvider.mkdir(self, path), pre)

        def delete(self, oid):
            p = self._path_of(oid)
            pre = {"path": sysobj.names.encode(self._vside, p) if p else [], "cid": 0, "src": [],
                   "noop": 0 if p else 1}
            return self._wrap("delete", None, lambda: MockProvider.delete(self, oid), pre)

        # -- reading API (fault sites; corrupt reads) ----------------------------------------------------
        def download(self, oid, file_like):
            def go():
                p = self._path_of(oid)
                o = self._mock_fs.get(oid)
                if p and self.corrupt_paths.get(p) is not None and o is not None and o.contents == self.corrupt_paths[p]:
                    sysobj.rec.ev("CorruptRead", side=self._vside, path=sysobj.names.encode(self._vside, p))
                    raise ex.CloudCorruptError("injected corrupt read")
                return MockProvider.download(self, oid, file_like)
            return self._wrap("download", None, go)

        def info_oid(self, oid, use_cache=True):
            return self._wrap("info_oid", None, lambda: MockProvider.info_oid(self, oid, use_cache))

        def info_path(self, path, use_cache=True):
            return self._wrap("info_path", None, lambda: MockProvider.info_path(self, path, use_cache))

        def exists_oid(self, oid):
            return self._wrap("exists_oid", None, lambda: MockProvider.exists_oid(self, oid))

        def exists_path(self, path):
            return self._wrap("exists_path", None, lambda: MockProvider.exists_path(self, path))

        def hash_oid(self, oid):
            return self._wrap("hash_oid", None, lambda: MockProvider.hash_oid(self, oid))

        def listdir(self, oid):
            if self._vdepth or sysobj.in_user:
                yield from MockProvider.listdir(self, oid)
                return
            self._vdepth += 1
            try:
                self._fault("listdir")
                items = list(MockProvider.listdir(self, oid))
            finally:
                self._vdepth -= 1
            yield from items

        def events(self):
            if self._vdepth or sysobj.in_user:
                yield from MockProvider.events(self)
                return
            self._fault("events")        # an events() call fails as a whole, before it delivers anything
            n = 0
            gen = MockProvider.events(self)

            def pull():
                # what the provider does internally while producing the next event (the filtered flavours walk a
                # folder that was moved into the root) is not an engine-issued call: no fault is injected there
                self._vdepth += 1
                try:
                    return next(gen, None)
                finally:
                    self._vdepth -= 1
            if self.mangle is not None:
                batch = []
                while True:
                    e = pull()
                    if e is None:
                        break
                    batch.append(e)
                for e in self.mangle(batch):
                    yield e
                return
            while True:
                e = pull()
                if e is None:
                    return
                yield e
                n += 1
                if self.max_events and n >= self.max_events:
                    gen.close()
                    return

    p = EngineProvider()
    p.connect({"key": "val"})
    return p


def make_mangler(kind, sysobj, side):
    """Event-stream manglings (C14).  Each returns a function batch -> batch applied to what events() yields."""
    import copy
    from cloudsync.event import Event
    from cloudsync.types import FILE
    held = []
    seen = []

    def dup(batch):                      # every event delivered twice in a row
        out = []
        for e in batch:
            out += [e, copy.copy(e)]
        return out

    def replay(batch):                   # whenever new events arrive, everything delivered so far is delivered again first
        if not batch:
            return []
        out = [copy.copy(e) for e in seen] + list(batch)
        seen.extend(batch)
        return out

    def reverse(batch):                  # id-stable providers: a batch arrives in the opposite order
        return list(reversed(batch))

    def delay(batch):                    # id-stable providers: the first event of each batch arrives one delivery late
        out = held[:] + list(batch[1:])
        del held[:]
        if batch:
            held.append(batch[0])
        return out

    def droppath(batch):                 # id-stable providers: events carry no path
        out = []
        for e in batch:
            e = copy.copy(e)
            e.path = None
            out.append(e)
        return out

    def ghosts(batch):                   # an event without id, and an event for an object that does not exist (any more)
        return list(batch) + [Event(FILE, None, sysobj.roots[side] + "/ghost-no-id", None, True),
                              Event(FILE, "ghost-oid-%d" % side, None, None, True),
                              Event(FILE, "ghost-oid-gone-%d" % side, None, None, False)]

    return {"dup": dup, "replay": replay, "reverse": reverse, "delay": delay, "droppath": droppath, "ghosts": ghosts}[kind]


class Recorder:
    def __init__(self, sysobj):
        self.s = sysobj
        self.events = []
        self.step = 0

    def ev(self, _evname, **kw):
        d = {"ev": _evname}
        d.update(kw)
        self.events.append(d)
        return d

    def ecall(self, info):
        d = {"ev": "ECall", "step": self.step, "now": int(self.s.clk.t * 1000) % 100000000}
        d.update(info)
        d.setdefault("noop", 0)
        self.events.append(d)


class TracedStorage:
    """Wraps a Storage backend: counts writes, can crash before the k-th write."""

    def __init__(self, sysobj, inner):
        self.s = sysobj
        self.inner = inner
        self.nwrites = 0

    def _w(self):
        self.nwrites += 1
        inj = self.s.inj
        if inj is not None and inj.get("crash_before_sw") == self.nwrites:
            inj["crash_before_sw"] = None
            raise Crash()

    def create(self, tag, ser):
        self._w()
        return self.inner.create(tag, ser)

    def update(self, tag, ser, eid):
        self._w()
        return self.inner.update(tag, ser, eid)

    def delete(self, tag, eid):
        self._w()
        return self.inner.delete(tag, eid)

    def read_all(self, tag=None):
        return self.inner.read_all(tag) if tag is not None else self.inner.read_all()

    def read(self, tag, eid):
        try:
            return self.inner.read(tag, eid)
        except ValueError:          # known finding C09-MOCK-READ-MISSING: the fixture raises for a missing row
            return None

    def close(self):
        pass


class System:
    """Two MockFS accounts, engine providers + user providers, one CloudSync, a recorder."""

    def __init__(self, flavor="oid/oid", storage="mock", resolver=None, aging=0.0, smart=False, prioritize=None,
                 roots=("local", "remote"), translate=None, whole=False, root_by_oid=False, decline=None):
        import_repo()
        self.clk = VClock()
        install_clock(self.clk)
        from cloudsync.providers.mock import MockProvider
        from cloudsync.event import EventManager
        self.flavor = flavor
        self.rootnames = roots
        self.roots = ("/" + roots[0], "/" + roots[1])
        self.names = Names(roots)
        self.contents = Contents()
        self.rec = Recorder(self)
        self.inj = None
        self.stuck = None
        self.mid = None
        self.in_user = False
        self.aging = aging
        self.smart = smart
        self.resolver = resolver
        self.prioritize = prioritize
        self.translate = translate
        self.whole = whole              # project the whole account, not only the sync root (C12)
        self.root_by_oid = root_by_oid
        self.decline = decline          # path codes of a subfolder the application's translate() declines
        if decline:
            dec = decline

            def _tr(cs_self, side, path, _dec=dec):
                enc = self.names.encode(1 - side, path)
                if enc[:len(_dec)] == _dec:
                    return None
                return type(cs_self).__mro__[1].translate(cs_self, side, path)
            self.translate = _tr
        self.notes = []
        self.project_state = False
        self.projector = StateProjector(self.names)
        self._oidnums = [{}, {}]
        self.cur_mgr = ""
        self.resolve_calls = []
        fl = FLAVORS[flavor]
        self.eng = [make_engine_provider(self, s, *fl[s]) for s in (0, 1)]
        self.usr = []
        for s in (0, 1):
            u = MockProvider(fl[s][0], fl[s][1])
            u.connect({"key": "val"})
            u._set_mock_fs(self.eng[s]._mock_fs)
            self.usr.append(u)
        EventManager._provider_guard.clear()
        if storage == "mock":
            from cloudsync.tests.fixtures.mock_storage import MockStorage
            self.storage = TracedStorage(self, MockStorage({}))
        elif storage is None:
            self.storage = None
        else:
            self.storage = TracedStorage(self, storage)
        self.cs = None
        self.stopped = False
        self.escaped = []

    # ---- construction of the engine ------------------------------------------------------------------
    def oidnum(self, side, oid):
        if oid is None:
            return 0
        d = self._oidnums[side]
        if oid not in d:
            d[oid] = len(d) + 1
        return d[oid]

    def _traced_classes(self):
        """Subclasses of the engine's own classes that log intake and the entry being synchronised (no source hooks)."""
        from cloudsync.sync.state import SyncState
        from cloudsync.sync.manager import SyncManager
        from cloudsync.smartsync import SmartSyncState, SmartSyncManager
        sysobj = self
        SBase = SmartSyncState if self.smart else SyncState
        MBase = SmartSyncManager if self.smart else SyncManager

        class TracedState(SBase):
            def update(self, side, otype, oid, path=None, hash=None, exists=True, prior_oid=None, **kw):
                if sysobj.cur_mgr in ("EL", "ER"):       # called by the event manager: the engine is being notified
                    sysobj.rec.ev("Intake", side=side, oid=sysobj.oidnum(side, oid),
                                  prior=sysobj.oidnum(side, prior_oid) if prior_oid and prior_oid != oid else 0,
                                  now=int(sysobj.clk.t * 1000) % 100000000, exists=1 if exists else 0)
                return SBase.update(self, side, otype, oid, path=path, hash=hash, exists=exists, prior_oid=prior_oid, **kw)

        class TracedSync(MBase):
            def _sync_one_entry(self, sync):
                sysobj.rec.ev("SyncEntry", oids=[sysobj.oidnum(0, sync[0].oid), sysobj.oidnum(1, sync[1].oid)],
                              neg=1 if sync.priority < 0 else 0, now=int(sysobj.clk.t * 1000) % 100000000,
                              changed=[int((sync[0].changed or 0) * 1000) % 100000000, int((sync[1].changed or 0) * 1000) % 100000000])
                return MBase._sync_one_entry(self, sync)

        return TracedState, TracedSync

    def start_engine(self):
        from cloudsync import CloudSync
        from cloudsync.event import EventManager
        from cloudsync.smartsync import SmartCloudSync
        sysobj = self
        base = CloudSync

        class CS(base):
            def handle_notification(self, n):
                sysobj.notes.append(n)
                sysobj.rec.ev("Notify", source=n.source.value if hasattr(n.source, "value") else -1,
                              ntype=n.ntype.value, step=sysobj.rec.step)

            def resolve_conflict(self, f1, f2):
                return sysobj._resolve(f1, f2)

            def prioritize(self, side, path):
                if sysobj.prioritize:
                    return sysobj.prioritize(side, path)
                return 0

        if self.translate:
            CS.translate = lambda cs_self, side, path: sysobj.translate(cs_self, side, path)
        EventManager._provider_guard.clear()
        for p in self.eng:
            if not p.connected:
                self.in_user = True
                try:
                    p.reconnect()
                finally:
                    self.in_user = False
        root_oids = None
        if self.root_by_oid:
            self.in_user = True
            try:
                root_oids = tuple(self.eng[s].info_path(self.roots[s]).oid for s in (0, 1))
            finally:
                self.in_user = False
        TS, TM = self._traced_classes()
        kw = {}
        if self.smart:
            from cloudsync.smartsync import SmartEventManager
            kw["emgr_class"] = SmartEventManager
            for name in ("register_auto_sync_callback", "_get_smartinfo", "_sync_one_entry", "_smart_unsync_ent", "smart_unsync_oid",
                         "smart_unsync_path", "_smart_sync_ent", "smart_sync_oid", "smart_sync_path", "smart_listdir_path",
                         "_ensure_path_remote", "smart_info_path", "smart_info_oid", "smart_delete_path", "smart_rename"):
                setattr(CS, name, SmartCloudSync.__dict__[name])
        self.cs = CS(tuple(self.eng), self.roots, self.storage, sleep=None, root_oids=root_oids,
                     state_class=TS, smgr_class=TM, **kw)
        self.cs.aging = self.aging
        if self.smart and getattr(self, "auto_names", None):
            auto = [NAMES[c] for c in self.auto_names]
            self.cs.register_auto_sync_callback(lambda path: path.rstrip("/").split("/")[-1] in auto)
        self.stopped = False
        return self.cs

    def _resolve(self, f1, f2):
        r = self.resolver
        info = {"ev": "Resolve", "step": self.rec.step}
        b = []
        for f in (f1, f2):
            try:
                data = f.read()
                f.seek(0)
                b.append((f.side, self.contents.cid(data), self.names.encode(f.side, f.path)))
            except Exception as e:                 # unreadable handle: recorded
                b.append((getattr(f, "side", -1), UNKNOWN_CONTENT, []))
        info["h1"] = {"side": b[0][0], "cid": b[0][1], "path": b[0][2]}
        info["h2"] = {"side": b[1][0], "cid": b[1][1], "path": b[1][2]}
        info["answer"] = r[0] if r else "none"
        info["keep"] = 1
        info["pick"] = 9
        info["merged"] = 0
        self.rec.events.append(info)
        self.resolve_calls.append(info)
        if not r:
            return None
        kind = r[0]
        if kind == "pick":              # ("pick", side, keep)
            f = f1 if f1.side == r[1] else f2
            info["keep"] = 1 if r[2] else 0
            info["pick"] = r[1]
            return (f, r[2])
        if kind == "merge":             # ("merge", keep): new content = fresh id
            cid = 500 + len(self.resolve_calls)
            data = self.contents.data(cid)
            info["merged"] = cid
            info["keep"] = 1 if r[1] else 0
            return (io.BytesIO(data), r[1])
        if kind == "raise":
            raise RuntimeError("resolver failed")
        if kind == "garbage":
            return "not a tuple"
        if kind == "none":
            return None
        raise MachineryError("unknown resolver behaviour %r" % (r,))

    # ---- projection -------------------------------------------------------------------------------------
    def tree(self, side, whole=None):
        """[[path codes], cell] pairs of everything under the root (or the whole account)."""
        prov = self.usr[side]
        out = []
        whole = self.whole if whole is None else whole
        start = "/" if whole else self.roots[side]
        info = prov.info_path(start)
        if not info:
            return out

        def rec(oid, rel):
            for e in sorted(prov.listdir(oid), key=lambda x: x.name):
                r = rel + "/" + e.name
                if e.otype.value == "dir":
                    out.append([self.names.encode(side, r), DIR])
                    rec(e.oid, r)
                else:
                    b = io.BytesIO()
                    prov.download(e.oid, b)
                    out.append([self.names.encode(side, r), self.contents.cid(b.getvalue())])
        if not whole:
            out.append([self.names.encode(side, start), DIR])
        rec(info.oid, "" if whole else start)
        out.sort()
        return out

    def trees(self, whole=None):
        return [self.tree(0, whole), self.tree(1, whole)]

    # ---- user operations -----------------------------------------------------------------------------------
    def user(self, side, op):
        from cloudsync import exceptions as ex
        prov = self.usr[side]
        k = op[0]
        ok = 1
        self.in_user = True
        try:
            p = self.names.decode(side, op[1])
            if k == "create":
                prov.create(p, io.BytesIO(self.contents.data(op[2])))
            elif k == "mkdir":
                if prov.info_path(p) is not None:
                    raise ex.CloudFileExistsError(p)
                prov.mkdir(p)
            elif k == "write":
                i = prov.info_path(p)
                prov.upload(i.oid, io.BytesIO(self.contents.data(op[2])))
            elif k in ("delete", "rmdir"):
                i = prov.info_path(p)
                if (k == "delete") != (i.otype.value == "file"):
                    raise ex.CloudFileNotFoundError(p)
                prov.delete(i.oid)
            elif k == "rename":
                i = prov.info_path(p)
                prov.rename(i.oid, self.names.decode(side, op[2]))
            else:
                raise MachineryError("unknown user op %r" % (op,))
        except (ex.CloudFileExistsError, ex.CloudFileNotFoundError, AttributeError):
            ok = 0
        finally:
            self.in_user = False
        self.rec.ev("UserOp", side=side, op=k, path=op[1], dst=op[2] if k == "rename" else [],
                    cid=op[2] if k in ("create", "write") else 0, ok=ok, post=self.trees(),
                    now=int(self.clk.t * 1000) % 100000000)
        return ok

    # ---- user operations in the middle of an engine step ---------------------------------------------------------
    def mid_tick(self):
        m = getattr(self, "mid", None)
        if m is None or self.in_user:
            return
        m["n"] += 1
        if m["n"] >= m["k"]:
            self.mid = None
            self.user(m["side"], m["op"])

    def mid_flush(self):
        m = getattr(self, "mid", None)
        if m is not None:                 # the step made fewer calls than k: the operation happens at the step boundary
            self.mid = None
            self.user(m["side"], m["op"])

    # ---- engine steps ------------------------------------------------------------------------------------------
    def _guarded(self, name, fn):
        from cloudsync.runnable import _BackoffError
        self.rec.step += 1
        self.rec.ev("StepBegin", mgr=name, step=self.rec.step)
        n0 = len(self.rec.events)
        out = "ok"
        self.cur_mgr = name
        try:
            fn()
        except _BackoffError:
            out = "backoff"
        except Crash:
            self.rec.ev("StepEnd", mgr=name, step=self.rec.step, out="crash", post=self.trees())
            raise
        except Exception as e:
            out = "escape"
            self.escaped.append((name, type(e).__name__, str(e)[:100]))
            self.rec.ev("Escape", mgr=name, step=self.rec.step, exc=type(e).__name__)
        self.cur_mgr = ""
        self.pump_notifications()
        if len(self.rec.events) > n0 or out != "ok":   # something observable happened: log the step and the trees
            d = self.rec.ev("StepEnd", mgr=name, step=self.rec.step, out=out, post=self.trees())
            if self.project_state:
                self.in_user = True
                try:
                    from cloudsync.sync.state import SyncState
                    d["st"] = self.projector.project(self.cs.state, self.storage, SyncState)
                finally:
                    self.in_user = False
        else:                                          # an idle step leaves no line at all
            del self.rec.events[n0 - 1:]
        return out

    def pump_notifications(self):
        """Deliver what the engine queued for the application (the notification service's own loop body)."""
        q = getattr(self.cs.nmgr, "_NotificationManager__queue")
        n = 0
        while q.qsize() > 0 and n < 1000:
            n += 1
            try:
                self.cs.nmgr.do()
            except Exception as e:      # the handler is ours and does not raise
                raise MachineryError("notification delivery failed: %r" % (e,))

    def intake(self, side, k=0):
        if getattr(self, "walk_before_intake", False):
            self.in_user = True
            try:
                self.cs.walk(side=side)
            finally:
                self.in_user = False
        self.eng[side].max_events = k
        try:
            return self._guarded("EL" if side == 0 else "ER", self.cs.emgrs[side].do)
        finally:
            self.eng[side].max_events = 0

    def sync(self):
        return self._guarded("S", self.cs.smgr.do)

    def tick(self, n):
        self.clk.advance(n * max(self.aging, 1.0) / 2.0)

    def busy(self):
        self.in_user = True
        try:
            return bool(self.cs.smgr.busy) or self.cs.emgrs[0].busy or self.cs.emgrs[1].busy
        except Exception:
            return True
        finally:
            self.in_user = False

    def quiesce(self, bound=None, order=("EL", "ER", "S")):
        """Fair rounds until not busy on three consecutive rounds. Records Quiet or NoQuiet."""
        bound = bound or 120
        idle = 0
        for rnd in range(bound):
            for w in order:
                if w == "EL":
                    self.intake(0)
                elif w == "ER":
                    self.intake(1)
                else:
                    self.sync()
            self.clk.advance(max(self.aging, 1.0) * 2)
            if not self.busy():
                idle += 1
                if idle >= 3:
                    self.rec.ev("Quiet", rounds=rnd + 1, post=self.trees())
                    return True
            else:
                idle = 0
        self.rec.ev("NoQuiet", rounds=bound, post=self.trees())
        return False

    def after_quiet(self, rounds=3):
        """C03 NoEcho: further full rounds and a clock advance after Quiet; any engine write is recorded as usual."""
        self.rec.ev("AfterQuiet")
        for _ in range(rounds):
            self.intake(0)
            self.intake(1)
            self.sync()
            self.clk.advance(max(self.aging, 1.0) * 3)
        self.rec.ev("AfterQuietEnd", post=self.trees(), busy=1 if self.busy() else 0)

    # ---- on-demand API (C20) -------------------------------------------------------------------------------------
    def _app_call(self, name, fn):
        """A call of the application into the on-demand API: recorded like a service step (it may sync entries itself)."""
        from cloudsync import exceptions as ex
        from cloudsync.runnable import _BackoffError
        self.rec.step += 1
        self.rec.ev("StepBegin", mgr=name, step=self.rec.step)
        self.cur_mgr = name
        ok = 1
        try:
            fn()
        except (ex.CloudException, _BackoffError):
            ok = 0
        finally:
            self.cur_mgr = ""
        self.pump_notifications()
        self.rec.ev("StepEnd", mgr=name, step=self.rec.step, out="ok", post=self.trees())
        return ok

    def smart_request(self, how, path):
        rp = self.names.decode(1, path)
        self.rec.ev("Req", path=path, how=how)          # the request exists from the moment the application makes the call
        if how == "oid":
            self.in_user = True
            try:
                info = self.eng[1].info_path(rp)
            finally:
                self.in_user = False
            ok = self._app_call("Req", lambda: self.cs.smart_sync_oid(info.oid)) if info else 0
        else:
            ok = self._app_call("Req", lambda: self.cs.smart_sync_path(rp, 1))
        self.rec.ev("ReqEnd", path=path, how=how, ok=ok, post=self.trees())

    def smart_unrequest(self, path):
        rp = self.names.decode(1, path)
        self.rec.ev("Unreq", path=path)
        ok = self._app_call("Unreq", lambda: self.cs.smart_unsync_path(rp, 1))
        self.rec.ev("UnreqEnd", path=path, ok=ok, post=self.trees())

    def smart_list(self, path):
        lp = self.names.decode(0, path)
        items = []
        self.in_user = True
        try:
            for si in self.cs.smart_listdir_path(lp):
                items.append([self.names.code(0, si.name, False), 1 if si.is_synced else 0, 1 if si.otype.value == "dir" else 2])
        finally:
            self.in_user = False
        self.rec.ev("Listing", dir=path, items=sorted(items), post=self.trees())

    # ---- base tree ----------------------------------------------------------------------------------------------
    def build_base(self, base, side=0):
        """base: list of [path codes, cell]; created by a user on `side` before the engine exists, then synced."""
        self.in_user = True
        try:
            for s in (0, 1):
                self.usr[s].mkdir(self.roots[s])
            for path, cell in sorted(base):
                # objects outside the sync root exist on both accounts (separate copies); inside: on `side` only
                # side 2: the two accounts already hold identical trees when the engine first starts (nothing to transfer,
                # and neither provider has anything to report in the first session)
                for sd in ((side,) if (path[0] == ROOT and side != 2) else (0, 1)):
                    p = self.names.decode(sd, path)
                    if cell == DIR:
                        self.usr[sd].mkdir(p)
                    else:
                        self.usr[sd].create(p, io.BytesIO(self.contents.data(cell)))
        finally:
            self.in_user = False

    def begin(self, base, base_side=0):
        self.build_base(base, base_side)
        # a freshly connected provider's event stream starts "now": what the accounts already hold is found by the start-up walk
        # (the mock would otherwise replay the creation of the base tree as events of the first session)
        for prov in self.eng:
            try:
                prov.current_cursor = prov.latest_cursor
            except Exception:
                pass
        self.start_engine()
        n0 = len(self.rec.events)
        ok = self.quiesce()
        del self.rec.events[n0:]           # the initial sync is not part of the validated trace
        self.rec.step = 0
        t = self.trees()
        vis = [[e for e in x if not (self.decline and e[0][:len(self.decline)] == self.decline)] for x in t]
        if self.smart:              # on-demand mode: only folders are mirrored until files are requested
            vis = [[e for e in x if e[1] == DIR] for x in vis]
        if not ok or vis[0] != vis[1]:
            raise MachineryError("base tree did not synchronise: %r" % (t,))
        self.rec.ev("Base", post=t, flavor=self.flavor, aging_ms=int(self.aging * 1000))
        return t

    # ---- stop / restart ---------------------------------------------------------------------------------------------
    def stop_engine(self):
        self.rec.ev("Stop")
        self.in_user = True
        try:
            self.cs.done()
        finally:
            self.in_user = False
        self.stopped = True

    def restart(self, variant="intact"):
        if not self.stopped:
            self.stop_engine()
        if variant == "cursorRemoved" and self.storage is not None:
            for tag, rows in list(self.storage.inner.read_all().items()):
                if "_cursor" in tag:
                    for eid in list(rows):
                        self.storage.inner.delete(tag, eid)
        elif variant == "cursorRejected" and self.storage is not None:
            for tag, rows in list(self.storage.inner.read_all().items()):
                if "_cursor" in tag:
                    for eid in list(rows):
                        self.storage.inner.update(tag, "bogus-cursor", eid)
        # a new process has freshly connected providers whose event stream starts "now"; the engine positions it at the cursor
        # it finds in storage (the harness re-uses the provider objects: their in-memory cursor would otherwise still deliver
        # what happened while the engine was down, whatever the engine stored)
        for prov in self.eng:
            try:
                prov.current_cursor = prov.latest_cursor
            except Exception:
                pass
        self.rec.ev("Restart", variant=variant, post=self.trees())
        self.start_engine()

    # ---- token interpreter ------------------------------------------------------------------------------------------
    def run_tokens(self, tokens):
        for tok in tokens:
            k = tok[0]
            while True:
                try:
                    self._run_token(tok)
                    break
                except Crash:
                    self.rec.ev("Crash", step=self.rec.step, post=self.trees())
                    self.cur_mgr = ""
                    self.stopped = True
                    self.inj = None
                    self.in_user = True
                    try:
                        self.cs.done()
                    except Exception:
                        pass
                    finally:
                        self.in_user = False
                    self.restart("intact")
                    if k != "Q":            # a single step dies with the process; a run-to-quiet is resumed
                        break
        return self.rec.events

    def _run_token(self, tok):
        k = tok[0]
        if self.stopped and k in ("EL", "ER", "S", "Q", "AQ"):
            if k in ("Q", "AQ"):
                self.restart("intact")
            else:
                return
        if k != "S":
            self.mid_flush()
        if k == "U":
            self.user(tok[1], tok[2])
        elif k == "UM":                   # ["UM", k, side, op]: op is performed right after the k-th engine provider call from now
            self.mid = {"k": tok[1], "n": 0, "side": tok[2], "op": tok[3]}
        elif k == "EL":
            self.intake(0, tok[1] if len(tok) > 1 else 0)
        elif k == "ER":
            self.intake(1, tok[1] if len(tok) > 1 else 0)
        elif k == "S":
            self.sync()
        elif k == "T":
            self.tick(tok[1])
        elif k == "Q":
            self.quiesce()
        elif k == "X":
            self.stop_engine()
        elif k == "R":
            self.restart(tok[1] if len(tok) > 1 else "intact")
        elif k == "F":
            self.inj = {"n": 0, "nmut": 0, "fail_at": tok[1], "kind": tok[2],
                        "sw0": self.storage.nwrites if self.storage else 0}
        elif k == "K":
            self.inj = self.inj or {"n": 0, "nmut": 0, "sw0": self.storage.nwrites if self.storage else 0}
            if tok[1] == "storage":
                self.inj["crash_before_sw"] = (self.storage.nwrites if self.storage else 0) + tok[2]
            else:
                self.inj["crash_after_pw"] = self.inj["nmut"] + tok[2]
        elif k == "C":
            cp = self.names.decode(tok[1], tok[2])
            co = self.eng[tok[1]]._mock_fs.get(self.eng[tok[1]].normalize_path(cp))
            if co is not None and co.exists and co.contents is not None:
                self.eng[tok[1]].corrupt_paths[cp] = co.contents
            self.rec.ev("Corrupt", side=tok[1], path=tok[2])
        elif k == "P":                    # ["P", side, path]: engine writes to that path on that side keep failing (locked)
            self.stuck = {"side": tok[1], "path": tok[2], "hits": 0}
        elif k == "Unstick":
            hits = self.stuck["hits"] if self.stuck else 0
            self.stuck = None
            self.rec.ev("Unstick", hits=hits)
        elif k == "Prog":                 # ["Prog", rounds]: fair rounds, then a progress report (trees) - the stuck file aside
            for _ in range(tok[1]):
                self.intake(0, 0)
                self.intake(1, 0)
                self.sync()
            self.rec.ev("Progress", post=self.trees(), hits=self.stuck["hits"] if self.stuck else 0)
        elif k == "AQ":
            self.after_quiet()
        elif k == "Req":
            self.smart_request(tok[1], tok[2])
        elif k == "Unreq":
            self.smart_unrequest(tok[1])
        elif k == "List":
            self.smart_list(tok[1])
        else:
            raise MachineryError("unknown token %r" % (tok,))


# ---- projection of the sync state (C08 / C11) ---------------------------------------------------------------------
EXISTS_CODE = {"unknown": 0, "exists": 1, "trashed": 2, "missing": 3, "likely-trashed": 4, "corrupt": 5}
IGNORE_CODE = {"none": 0, "discarded": 1, "conflict": 2, "temp rename": 3, "irrelevant": 4}


class StateProjector:
    """Numbers entries / oids / hashes in order of first appearance and projects a SyncState + its storage rows."""

    def __init__(self, names):
        self.names = names
        self.ent = {}
        self.oid = [{}, {}]
        self.hashes = {}
        self.sids = {}

    def _n(self, table, key):
        if key is None:
            return 0
        if key not in table:
            table[key] = len(table) + 1
        return table[key]

    def _h(self, h):
        if h is None:
            return 0
        k = repr(h)
        return self._n(self.hashes, k)

    def _p(self, side, path):
        return self.names.encode(side, path) if path else []

    def side_rec(self, side, d):
        """d: mapping with oid, path, hash, sync_hash, sync_path, exists(str), changed, otype(str)"""
        return [self._n(self.oid[side], d["oid"]), self._p(side, d["path"]), self._h(d["hash"]), self._h(d["sync_hash"]),
                self._p(side, d["sync_path"]), EXISTS_CODE.get(d["exists"], 9), 1 if d["changed"] else 0,
                1 if d["otype"] == "dir" else 2]

    def ent_rec(self, e):
        def sd(s):
            ss = e[s]
            return self.side_rec(s, {"oid": ss.oid, "path": ss.path, "hash": ss.hash, "sync_hash": ss.sync_hash,
                                     "sync_path": ss.sync_path, "exists": ss.exists.value, "changed": ss.changed,
                                     "otype": ss.otype.value if ss.otype else "file"})
        return {"id": self._n(self.ent, id(e)), "sid": self._n(self.sids, e.storage_id), "ig": IGNORE_CODE.get(e.ignored.value, 9),
                "s": [sd(0), sd(1)]}

    def row_rec(self, sid, blob):
        import msgpack
        ser = msgpack.loads(blob, use_list=False, raw=False)
        ig = ser.get("ignored", "none") or "none"
        if ig == "trashed":
            ig = "discarded"

        def sd(s):
            d = ser["side%d" % s]
            ex = d["exists"]
            ex = {None: "unknown", True: "exists", False: "trashed"}.get(ex, ex) if not isinstance(ex, str) else ex
            return self.side_rec(s, {"oid": d["oid"], "path": d["path"], "hash": d["hash"], "sync_hash": d["sync_hash"],
                                     "sync_path": d["sync_path"], "exists": ex, "changed": d["changed"], "otype": d["otype"]})
        return {"sid": self._n(self.sids, sid), "ig": IGNORE_CODE.get(ig, 9), "s": [sd(0), sd(1)]}

    def project(self, state, storage, reload_cls=None):
        ents = set(state._changeset_storage) | set(state._dirtyset)
        for s in (0, 1):
            ents |= set(state._oids[s].values())
            for m in state._paths[s].values():
                ents |= set(m.values())
        recs = sorted((self.ent_rec(e) for e in ents), key=lambda r: r["id"])
        # a state loaded from storage also files id-less / path-less sides under the key None; those slots answer no
        # lookup the engine makes and are left out on both sides of the comparison
        oidx = sorted([s, self._n(self.oid[s], o), self._n(self.ent, id(e))] for s in (0, 1) for o, e in state._oids[s].items()
                      if o is not None)
        pidx = sorted([s, self._p(s, p), self._n(self.oid[s], o), self._n(self.ent, id(e))]
                      for s in (0, 1) for p, m in state._paths[s].items() for o, e in m.items() if p and o is not None)
        out = {"ents": recs, "oidx": oidx, "pidx": pidx,
               "pend": sorted(self._n(self.ent, id(e)) for e in state._changeset_storage),
               "dirty": sorted(self._n(self.ent, id(e)) for e in state._dirtyset), "rows": [], "reload": {"ok": 1}}
        if storage is not None and state._tag:
            rows = storage.read_all(state._tag)
            out["rows"] = sorted((self.row_rec(sid, blob) for sid, blob in rows.items()), key=lambda r: r["sid"])
            if reload_cls is not None:
                # a fresh state over what storage holds: same lookups, same pending set?
                try:
                    st2 = reload_cls(state.providers, storage, state._tag)
                    lo = sorted([s, self._n(self.oid[s], o), self._n(self.sids, e.storage_id)] for s in (0, 1)
                                for o, e in st2._oids[s].items() if o is not None)
                    lp = sorted([s, self._p(s, p), self._n(self.oid[s], o), self._n(self.sids, e.storage_id)]
                                for s in (0, 1) for p, m in st2._paths[s].items() for o, e in m.items() if p and o is not None)
                    pe = sorted(self._n(self.sids, e.storage_id) for e in st2._changeset_storage)
                    out["reload"] = {"ok": 1, "oidx": lo, "pidx": lp, "pend": pe}
                except Exception as ex:
                    out["reload"] = {"ok": 0, "oidx": [], "pidx": [], "pend": [], "exc": type(ex).__name__}
        return out

"""
C07 - crash consistency: dying at any storage or provider write loses nothing.

For every behaviour of a base family (TLC-generated one-sided histories and disjoint two-sided ones) a golden run counts
its W storage writes (create/update/delete calls on the Storage backend) and its P effective engine provider writes; then
one run per crash instant - immediately BEFORE the k-th storage write (k <= W) or immediately AFTER the k-th provider write
(k <= P): the exception propagates out of the step, nothing else of that engine is executed, a new engine is started over
whatever storage and provider contents exist, and the run continues to quiet.  Judged by Trace_Sys.tla:
  Converged, ReachesQuiet   restart leads to convergence
  NoLoss, LastCopy          no user content lost
  NoArtefacts               for one-sided histories no '.conflicted' artefact: a half-recorded transfer is recognised
                            (same content already there) rather than duplicated
"""
from ..core import MachineryError
from ..runner import main
from .. import syscheck as sc
from .. import sysfam

CLAUSES = {"Converged", "ReachesQuiet", "NoLoss", "LastCopy", "NoArtefacts", "NoEscape", "NoInventedContent"}
GAPS = ["I", "IS", "ISS"]
NEVER = 10 ** 8


def one_sided(case):
    return len({t[1] for t in case["tokens"] if t[0] == "U"}) == 1


def accept(case, clause):
    return clause != "NoArtefacts" or one_sided(case)


def xsig(case, trace, line):
    k = [t for t in case["tokens"] if t[0] == "K"]
    crashed = [i for i, e in enumerate(trace) if e["ev"] == "Crash"]
    last = ""
    if crashed:
        before = [e for e in trace[:crashed[0]] if e["ev"] in ("ECall", "StepBegin")]
        last = before[-1].get("op", before[-1].get("mgr", "")) if before else ""
    return {"crash": k[0][1] if k else "", "at": last, "one_sided": one_sided(case)}


def run(ctx):
    ctx.extra["rule"] = ("base behaviours (TLC-generated) x every storage write index and every effective provider write index of the "
                         "golden run taken as the crash instant x flavours; distinct = distinct (flavour, behaviour, crash instant); "
                         "non-trivial = the crash fired")
    ctx.assume("a crash = BaseException raised at the instrumented call, the engine object abandoned, a new engine over the same "
               "storage object and provider objects", "storage backend: MockStorage fixture behind a counting wrapper",
               "MockProvider flavours are the environment; virtual clock; ageing 0")
    ctx.model_check("SysMC", "MC_SysMC.cfg", "design: contract guards", workers=4)
    sc.run_exemplars(ctx, CLAUSES, extra_sig=xsig, accept=accept)
    quick = ctx.tier == "quick"
    flavors = ["oid/oid", "path/oidf"] if quick else ["oid/oid", "path/oidf", "oidf/path", "path/path"]
    base = sc.generate(ctx, "k_one", [1], 2, GAPS, "std") + sc.generate(ctx, "k_oneR", [2], 2, GAPS, "std")
    base += [c for c in sc.generate(ctx, "k_two", [1, 2], 2, GAPS, "std", filt="disjoint") if not one_sided(c)]
    if not quick:
        base += sc.slice_cases(sc.generate(ctx, "k_one3", [1], 3, GAPS, "std"), 1500, ctx.seed)[0]
    base, _ = sc.slice_cases(base, 45 if quick else 400, key="crashbase")
    golden = sc.with_flavors([dict(c, tokens=[["F", NEVER, 4]] + c["tokens"]) for c in base], flavors)
    gtraces = sysfam.run_cases(ctx, golden)
    cases = []
    for g, tr in zip(golden, gtraces):
        note = [e for e in tr if e["ev"] == "Note"][-1]
        for k in range(1, note["nsw"] + 1):
            cases.append(dict(g, tokens=[["K", "storage", k]] + g["tokens"][1:], family="crash"))
        for k in range(1, note["nmut"] + 1):
            cases.append(dict(g, tokens=[["K", "provider", k]] + g["tokens"][1:], family="crash"))
    ctx.extra["crash_instants"] = len(cases)
    if quick:
        cases, _ = sc.slice_cases(cases, 4000, ctx.seed + 1)
    traces, viols, bad = sc.run_family(ctx, cases, "crash instants", CLAUSES, extra_sig=xsig, accept=accept)
    fired = sum(1 for t in traces if any(e["ev"] == "Crash" for e in t))
    ctx.extra["crashes_fired"] = fired
    if fired < len(cases) * 0.8:
        raise MachineryError("only %d of %d crash instants fired" % (fired, len(cases)))


def replay(ctx, rep):
    case = rep["case"]
    traces = sysfam.run_cases(ctx, [case])
    sysfam.judge(ctx, [case], traces, "replay", clauses=CLAUSES, extra_sig=xsig, accept=accept)
    ctx.count(evaluations=1, nontrivial=2)
    ctx.sample(case)


if __name__ == "__main__":
    main("C07", run, replay, level="fault_enumeration")

"""
C13 - path algebra: join/split/normalise/subpath/replace/match laws hold for all paths; translate round trip.

design:     Paths.tla / MC_Paths*.cfg - the helpers transcribed one-to-one, the laws as named operators; TLC checks the
            laws on the specification's own operators for every (convention, p, q, r) of a small bound.
spec->code: Gen_Paths (the same enumeration, exhaustively: every string / pair / triple up to the family's bounds) and
            Gen_PathsLong (-simulate: long random paths and spelling variants of them) print the inputs; this driver
            evaluates the REAL helpers (Provider.join/split/normalize_path/is_subpath/replace_path/paths_match/dirname/
            basename/is_subpath_of_root on bare Provider subclasses for the 8 conventions, CloudSync.translate on real
            CloudSync objects) on them and records inputs + results as trace lines.
code->spec: Trace_Paths (TLC) evaluates every LAW on the code's results (false -> violation, clause = the law) and
            compares the code's results with the specification operators' (different -> non-conformance only).
Python only executes and records; the shape / exception tags of a signature are computed by TLC.

Folders AS SPELLED (kinds S and Y): Gen_PathsSpell prints folders written un-normalised (Paths!Spell: separators at the end,
the alternate separator, doubled separators in front / inside / at the end, mixtures); the driver hands them to
is_subpath / is_subpath_of_root / replace_path / join (S) and assigns them as the roots of a real CloudSync (Y) exactly as
printed; Trace_Paths judges the same folder / translation laws, the expected names computed by Paths!Comps on the inputs.
"""
import itertools
import multiprocessing

from ..core import import_repo, MachineryError
from ..runner import main
from .. import tracecheck as tc

CH = {1: "/", 2: "\\", 3: "a", 4: "A", 5: ".", 6: " ", 7: "é", 8: ":",
      9: "É", 10: "\u0130", 11: "i", 12: "\u0307"}      # U+0130 'İ': the one character whose lower() is two characters, 'i' U+0307
CODE = {v: k for k, v in CH.items()}
CONVS = [(sep, cs, win) for sep in (1, 2) for cs in (1, 0) for win in (0, 1)]       # the 8 helper configurations
CHUNK = 64                                                                          # cases per trace
SLICE = 160000                                                                      # cases per validation round (thorough)


def s2p(codes):
    return "".join(CH[c] for c in codes)


def p2s(text):
    return [CODE.get(ch, 99) for ch in text]


class Err:
    def __init__(self, code):
        self.code = code


def enc(x):
    """Result -> the <<kind, ...>> form of Paths.tla (integers only)."""
    if isinstance(x, Err):
        return [3, x.code]
    if isinstance(x, str):
        return [1] + p2s(x)
    if x is True:
        return [2]
    if x is False or x is None:
        return [0]
    return [3, 9]


def strs_only(*vals):
    return all(isinstance(v, str) for v in vals)


_world = {}


def make_provider(sep, cs, win, key):
    """A bare Provider subclass: the four path-convention attributes, inert stubs for the abstract methods (no provider
    logic runs - the helpers under test are inherited unchanged from cloudsync.provider.Provider)."""
    import_repo()
    from cloudsync.provider import Provider
    body = {m: (lambda self, *a, **k: None) for m in Provider.__abstractmethods__}
    body.update(sep=CH[sep], alt_sep=CH[3 - sep], case_sensitive=bool(cs), win_paths=bool(win), name="paths",
                connect_impl=lambda self, creds: creds["key"])
    p = type("P%d%d%d" % (sep, cs, win), (Provider,), body)()
    p.connect({"key": key})
    if (p.sep, p.alt_sep, p.case_sensitive, p.win_paths) != (CH[sep], CH[3 - sep], bool(cs), bool(win)):
        raise MachineryError("could not configure a provider for %r" % ((sep, cs, win),))
    for h in ("join", "split", "normalize_path_separators", "normalize_path", "is_subpath", "is_subpath_of_root",
              "replace_path", "paths_match", "dirname", "basename"):
        if getattr(type(p), h).__qualname__.split(".")[0] != "Provider":
            raise MachineryError("helper %s is not the one of cloudsync.provider.Provider" % h)
    return p


def prov(c):
    """The provider of convention c (one per process)."""
    key = (c["sep"], c["cs"], c["win"])
    if key not in _world:
        _world[key] = make_provider(*key, "solo%d%d%d" % key)
    return _world[key]


def sync_for(ca, cb):
    """A real CloudSync over two fresh providers (a provider may serve one sync only) -> (sync, provider 0, provider 1)."""
    key = (ca["sep"], ca["cs"], ca["win"], cb["sep"], cb["cs"], cb["win"])
    if key not in _world:
        import_repo()
        from cloudsync import CloudSync
        pa = make_provider(ca["sep"], ca["cs"], ca["win"], "a%d%d%d%d%d%d" % key)
        pb = make_provider(cb["sep"], cb["cs"], cb["win"], "b%d%d%d%d%d%d" % key)
        _world[key] = (CloudSync((pa, pb), roots=(pa.sep, pb.sep), storage=None), pa, pb)
    return _world[key]


# ---- observations: the same records as ObsU / ObsB / ObsT / ObsX of Paths.tla, from the real helpers -------------------
def str_call(fn, *args):
    """Apply a helper to strings and record what happens; a helper whose input is not a string (an earlier result was
    False / None / an exception) is not evaluated (code 0, `Skip` in Paths.tla)."""
    if not strs_only(*args):
        return Err(0)
    try:
        return fn(*args)
    except IndexError:
        return Err(1)
    except ValueError:
        return Err(2)
    except Exception:       # recorded; judged by the trace specification
        return Err(9)


def obs_u(c, p):
    P = prov(c)
    n0 = str_call(lambda a: P.normalize_path(a, False), p)
    n1 = str_call(lambda a: P.normalize_path(a, True), p)
    sp = str_call(P.split, p)
    sd, sb = (sp[0], sp[1]) if isinstance(sp, tuple) and len(sp) == 2 else (sp if isinstance(sp, Err) else Err(9),) * 2
    sj = str_call(P.join, sd, sb)
    return {
        "ns": str_call(P.normalize_path_separators, p),
        "j1": str_call(P.join, p),
        "n0": n0, "n1": n1,
        "nn0": str_call(lambda a: P.normalize_path(a, False), n0),
        "nn1": str_call(lambda a: P.normalize_path(a, True), n1),
        "sd": sd, "sb": sb,
        "dn": str_call(P.dirname, p), "bn": str_call(P.basename, p),
        "sj": sj,
        "msj0": str_call(lambda a, b: P.paths_match(a, b, False), sj, p),
        "msj1": str_call(lambda a, b: P.paths_match(a, b, True), sj, p),
        "mr0": str_call(lambda a, b: P.paths_match(a, b, False), p, p),
        "mr1": str_call(lambda a, b: P.paths_match(a, b, True), p, p),
        "mn0": str_call(lambda a, b: P.paths_match(a, b, False), p, n0),
        "mn1": str_call(lambda a, b: P.paths_match(a, b, True), p, n1),
    }


def obs_b(c, p, q):
    P = prov(c)
    m0 = lambda a, b: P.paths_match(a, b, False)    # noqa: E731
    m1 = lambda a, b: P.paths_match(a, b, True)     # noqa: E731
    sub0 = lambda a, b: P.is_subpath(a, b, False)   # noqa: E731
    sub1 = lambda a, b: P.is_subpath(a, b, True)    # noqa: E731
    f = str_call(P.join, p)
    t = str_call(P.join, f, q)
    sub = str_call(sub0, f, t)
    sib = f + q if isinstance(f, str) else Err(0)

    def of_root(folder, target):
        old = P._root_path
        P._root_path = folder
        try:
            return P.is_subpath_of_root(target, False)
        finally:
            P._root_path = old
    return {
        "mpq0": str_call(m0, p, q), "mqp0": str_call(m0, q, p), "mpq1": str_call(m1, p, q), "mqp1": str_call(m1, q, p),
        "np0": str_call(lambda a: P.normalize_path(a, False), p), "nq0": str_call(lambda a: P.normalize_path(a, False), q),
        "np1": str_call(lambda a: P.normalize_path(a, True), p), "nq1": str_call(lambda a: P.normalize_path(a, True), q),
        "f": f, "t": t,
        "sub": sub, "subs": str_call(sub1, f, t),
        "sroot": str_call(of_root, f, t),
        "jr": str_call(P.join, f, sub),
        "mrel": str_call(m0, sub, q),
        "self": str_call(sub0, f, f), "selfs": str_call(sub1, f, f),
        "sib": sib, "ssub": str_call(sub0, f, sib), "ssubs": str_call(sub1, f, sib),
        "raw": str_call(sub0, p, q), "raws": str_call(sub1, p, q),
        "jpq": str_call(P.join, p, q), "jl": str_call(lambda a, b: P.join([a, b]), p, q),
    }


def obs_t(c, p, q, r):
    P = prov(c)
    m0 = lambda a, b: P.paths_match(a, b, False)    # noqa: E731
    m1 = lambda a, b: P.paths_match(a, b, True)     # noqa: E731
    sub0 = lambda a, b: P.is_subpath(a, b, False)   # noqa: E731
    f = str_call(P.join, p)
    g = str_call(P.join, r)
    t = str_call(P.join, f, q)
    rel = str_call(sub0, f, t)
    out = str_call(P.replace_path, t, f, g)
    rel2 = str_call(sub0, g, out)
    return {
        "mpq0": str_call(m0, p, q), "mqr0": str_call(m0, q, r), "mpr0": str_call(m0, p, r),
        "mpq1": str_call(m1, p, q), "mqr1": str_call(m1, q, r), "mpr1": str_call(m1, p, r),
        "f": f, "g": g, "t": t, "rel": rel, "out": out, "rel2": rel2,
        "mrel": str_call(m0, rel2, rel),
        "mout": str_call(m0, out, str_call(P.join, g, q)) if isinstance(out, str) else Err(0),
        "rawrep": str_call(P.replace_path, q, p, r),
    }


def obs_x(ca, cb, r0, r1, q, spelled=False):
    """spelled: the roots are r0 / r1 as they are (kind Y), else join(r0) / join(r1) (kind X)."""
    sync, PA, PB = sync_for(ca, cb)
    A = r0 if spelled else str_call(PA.join, r0)
    B = r1 if spelled else str_call(PB.join, r1)
    if strs_only(A, B):
        sync.roots = (A, B)

        def tr(side, path):
            return str_call(lambda x: sync.translate(side, x), path)
    else:
        def tr(side, path):
            return Err(0)
    ta = str_call(PA.join, A, q)
    xa = tr(1, ta)
    ba = tr(0, xa)
    tb = str_call(PB.join, B, q)
    xb = tr(0, tb)
    bb = tr(1, xb)
    oa = str_call(PA.join, q)
    ob = str_call(PB.join, q)
    return {
        "A": A, "B": B,
        "ta": ta, "xa": xa, "ba": ba, "mba": str_call(lambda a, b: PA.paths_match(a, b, False), ba, ta),
        "tb": tb, "xb": xb, "bb": bb, "mbb": str_call(lambda a, b: PB.paths_match(a, b, False), bb, tb),
        "oa": oa, "xoa": tr(1, oa), "xqa": tr(1, q),
        "ob": ob, "xob": tr(0, ob), "xqb": tr(0, q),
    }


def obs_s(c, fs, q, gs):
    """Folder laws with the folder fs (and the new folder gs of replace_path) handed to the helpers as spelled."""
    P = prov(c)
    m0 = lambda a, b: P.paths_match(a, b, False)    # noqa: E731
    sub0 = lambda a, b: P.is_subpath(a, b, False)   # noqa: E731
    sub1 = lambda a, b: P.is_subpath(a, b, True)    # noqa: E731
    jf = str_call(P.join, fs)
    t = str_call(P.join, fs, q)
    sub = str_call(sub0, fs, t)
    sib = jf + q if isinstance(jf, str) else Err(0)

    def of_root(folder, target):
        old = P._root_path
        P._root_path = folder
        try:
            return P.is_subpath_of_root(target, False)
        finally:
            P._root_path = old
    out = str_call(P.replace_path, t, fs, gs)
    rel2 = str_call(sub0, gs, out)
    return {
        "jf": jf, "t": t, "sub": sub, "subs": str_call(sub1, fs, t), "sroot": str_call(of_root, fs, t),
        "jr": str_call(P.join, fs, sub), "mrel": str_call(m0, sub, q),
        "self": str_call(sub0, fs, fs), "selfs": str_call(sub1, fs, fs),
        "sib": sib, "ssub": str_call(sub0, fs, sib), "ssubs": str_call(sub1, fs, sib),
        "out": out, "rel2": rel2,
        "mrel2": str_call(m0, rel2, sub),
        "mout": str_call(m0, out, str_call(P.join, gs, q)) if isinstance(out, str) else Err(0),
    }


def observe(case):
    """case = {kind, c, c2, p, q, r} (paths as code lists) -> trace line with the code's observation."""
    c, c2 = case["c"], case["c2"]
    p, q, r = s2p(case["p"]), s2p(case["q"]), s2p(case["r"])
    k = case["kind"]
    if k == "U":
        o = obs_u(c, p)
    elif k == "B":
        o = obs_b(c, p, q)
    elif k == "T":
        o = obs_t(c, p, q, r)
    elif k == "X":
        o = obs_x(c, c2, p, r, q)
    elif k == "S":
        o = obs_s(c, p, q, r)
    elif k == "Y":
        o = obs_x(c, c2, p, r, q, spelled=True)
    else:
        raise MachineryError("unknown case kind %r" % k)
    return {"kind": k, "c": c, "c2": c2, "p": case["p"], "q": case["q"], "r": case["r"],
            "o": {f: enc(v) for f, v in o.items()}}


def conv(t):
    return {"sep": t[0], "cs": t[1], "win": t[2]}


C0 = conv((1, 1, 0))


def _observe_chunk(cases):
    return [observe(x) for x in cases]


# ---- families --------------------------------------------------------------------------------------------------------
def gen_cfg(ctx, win, lp, lq, lr, ext=()):
    name = "Gen_Paths_%d_%d%d%d%s.cfg" % (win, lp, lq, lr, "_x" + "-".join(map(str, ext)) if ext else "")
    return tc.gen_cfg(ctx, name,
                      "CONSTANTS\n Seps = {1}\n Cases = {TRUE}\n Wins = {%s}\n Wins2 = {}\n LP = %d\n LQ = %d\n LR = %d\n Ext = {%s}\n"
                      "SPECIFICATION PathsSpec\nINVARIANT Emit\nCHECK_DEADLOCK FALSE\n"
                      % ("TRUE" if win else "FALSE", lp, lq, lr, ", ".join(map(str, ext))))


_gen_cache = {}


def generate(ctx, win, lp, lq, lr, ext=()):
    """Every (p, q, r) within the bounds over the 7-symbol alphabet (win = 0) or with ':' added (win = 1), or over the
    alphabet `ext` (character codes) when given - from TLC."""
    key = (win, lp, lq, lr, tuple(ext))
    if key not in _gen_cache:
        res = ctx.tlc("Gen_Paths", gen_cfg(ctx, win, lp, lq, lr, ext), what="enumerate inputs |p|<=%d |q|<=%d |r|<=%d%s"
                      % (lp, lq, lr, " over %r" % s2p(ext) if ext else " with ':'" if win else ""), workers=1, count=False, heap="3g")
        if not res.ok:
            raise MachineryError("input generator failed\n" + res.tail())
        triples = tc.parse_histories(res)
        n = len(ext) if ext else 8 if win else 7
        want = 1
        for bound in (lp, lq, lr):
            want *= sum(n ** k for k in range(bound + 1))
        if len(triples) != want:
            raise MachineryError("generator printed %d inputs, the family has %d" % (len(triples), want))
        _gen_cache[key] = triples
    return _gen_cache[key]


ALL_SPELLS = tuple(range(14))                    # Paths!Spell numbers 0..NSpell


def generate_spelled(ctx, lp, lq, lr, names, shortq, longq=(), spells=ALL_SPELLS, win_names=(), win_q=(8,)):
    """Folders as spelled, from TLC (Gen_PathsSpell): {(sep, win): [(F, q, G, k)]} with F = Spell(join(p), k),
    G = Spell(join(r), k) for the folder names p, r over `names` within the bounds; both separators, with / without drives."""
    key = ("spelled", lp, lq, lr, tuple(names), tuple(shortq), tuple(longq), tuple(spells), tuple(win_names), tuple(win_q))
    if key not in _gen_cache:
        sets = lambda xs: "{%s}" % ", ".join(str(x) for x in xs)       # noqa: E731
        import hashlib
        name = "Gen_PathsSpell_%s.cfg" % hashlib.sha1(repr(key).encode()).hexdigest()[:12]      # (families are generated concurrently)
        cfg = tc.gen_cfg(ctx, name,
                         "CONSTANTS\n Seps = {1, 2}\n Cases = {TRUE}\n Wins = {TRUE, FALSE}\n Wins2 = {}\n LP = %d\n LQ = %d\n LR = %d\n"
                         " Ext = {}\n NameChars = %s\n WinNames = %s\n WinQ = %s\n ShortQ = %s\n LongQ = %s\n Spells = %s\n"
                         "SPECIFICATION SpellSpec\nINVARIANT Emit\nCHECK_DEADLOCK FALSE\n"
                         % (lp, lq, lr, sets(names), sets(win_names), sets(win_q), sets(shortq), sets(longq), sets(spells)))
        res = ctx.tlc("Gen_PathsSpell", cfg, what="enumerate folders as spelled: %s" % fam_text((lp, lq, lr, names, shortq, longq, spells)),
                      workers=1, count=False, heap="3g")
        if not res.ok:
            raise MachineryError("spelled-folder generator failed\n" + res.tail())
        out = {(sep, win): [] for sep in (1, 2) for win in (0, 1)}
        for sep, win, fs, q, gs, k in tc.parse_histories(res):
            out[(sep, win)].append((fs, q, gs, k))
        for win in (0, 1):
            one, two = out[(1, win)], out[(2, win)]
            if not one or len(one) != len(two) or len({(tuple(x), tuple(y), tuple(z)) for x, y, z, _ in one}) != len(one):
                raise MachineryError("spelled-folder generator printed %d / %d inputs for the two separators (or repeated one)"
                                     % (len(one), len(two)))
        _gen_cache[key] = out
    return _gen_cache[key]


def cases_for(kind, c, c2, triples):
    return [{"kind": kind, "c": c, "c2": c2, "p": t[0], "q": t[1], "r": t[2]} for t in triples]


def run_cases(ctx, cases, what):
    """Execute the helpers on every case (in parallel), validate the recorded lines with TLC, hand out the verdicts."""
    if not cases:
        return
    step = max(CHUNK, len(cases) // (8 * ctx.workers) + 1)
    jobs = [cases[k:k + step] for k in range(0, len(cases), step)]
    if len(cases) < 2000:
        lines = [ln for job in jobs for ln in _observe_chunk(job)]
    else:
        with multiprocessing.get_context("fork").Pool(min(ctx.workers, len(jobs))) as pool:
            lines = [ln for part in pool.map(_observe_chunk, jobs) for ln in part]
    # traces: runs of at most CHUNK lines of one kind and one convention
    traces, index = [], []
    keyf = lambda i: (lines[i]["kind"], tuple(sorted(lines[i]["c"].items())), tuple(sorted(lines[i]["c2"].items())))  # noqa: E731
    order = sorted(range(len(lines)), key=keyf)
    for _, grp in itertools.groupby(order, key=keyf):
        grp = list(grp)
        for k in range(0, len(grp), CHUNK):
            index.append(grp[k:k + CHUNK])
            traces.append([lines[i] for i in grp[k:k + CHUNK]])
    viols, _ = tc.validate(ctx, "Trace_Paths", "Trace_Paths.cfg", traces, what,
                           min_batch=max(48, len(traces) // ctx.workers + 1))      # >= ~3000 lines per JVM
    ctx.count(evaluations=len(lines))
    by_kind = ctx.extra.setdefault("lines_by_kind", {})
    nontriv = ctx.extra.setdefault("_nontrivial", set())
    for ln in lines:
        by_kind[ln["kind"]] = by_kind.get(ln["kind"], 0) + 1
        if nontrivial(ln):
            nontriv.add(hash((ln["kind"], tuple(ln["c"].values()), tuple(ln["c2"].values()),
                              tuple(ln["p"]), tuple(ln["q"]), tuple(ln["r"]))))
    for ti, line, clause in viols:
        ln = lines[index[ti][line - 1]]
        law, shape, exc = (clause.split("@") + ["", ""])[:3]
        case = {k: ln[k] for k in ("kind", "c", "c2", "p", "q", "r")}
        shown = {"kind": ln["kind"], "convention": show_conv(ln["c"]), "p": s2p(ln["p"]), "q": s2p(ln["q"]), "r": s2p(ln["r"]),
                 "observed": {f: show_res(v) for f, v in ln["o"].items()}}
        if ln["kind"] in ("X", "Y"):
            shown["convention2"] = show_conv(ln["c2"])
        if law == "Bridge":
            raise MachineryError("driver / trace specification mismatch on %s" % shown)
        if law.startswith("NC:"):        # the code's result differs from the specification operator's: recorded, not judged
            key = "%s shape=%s exc=%s win_paths=%d" % (ln["kind"], shape, exc, max(ln["c"]["win"], ln["c2"]["win"]))
            seen = ctx.extra.setdefault("nonconformance_signatures", {})
            ent = seen.setdefault(key, {"witnesses": 0, "fields": []})
            ent["witnesses"] += 1
            if law[3:] not in ent["fields"]:
                ent["fields"] = sorted(ent["fields"] + [law[3:]])
            if ent["witnesses"] == 1:
                ctx.nonconf({"field": law[3:], "shape": shape, "exc": exc, "case": shown})
            continue
        sig = {"clause": law, "kind": ln["kind"], "sep": ln["c"]["sep"], "case_sensitive": ln["c"]["cs"], "win_paths": ln["c"]["win"],
               "shape": shape, "exc": exc}
        if shape in held_strata():       # a law failure of the unchanged code in a held input class: listed, not reported
            ent = ctx.extra.setdefault("held_strata", {}).setdefault(shape, {"witnesses": 0, "clauses": {}, "examples": []})
            ent["witnesses"] += 1
            ent["clauses"][law] = ent["clauses"].get(law, 0) + 1
            if sum(1 for e in ent["examples"] if e["clause"] == law) < 2:
                ent["examples"].append({"clause": law, "exc": exc, "case": shown, "replay": case})
            continue
        if ln["kind"] in ("X", "Y"):
            sig["win_paths"] = max(ln["c"]["win"], ln["c2"]["win"])
            sig["sep2"], sig["case_sensitive2"] = ln["c2"]["sep"], ln["c2"]["cs"]
        ctx.report(sig, shown, replay=case)


# Input classes (stratum tags computed by TLC) whose law failures on the UNCHANGED code are awaiting a decision (defect to
# repair or known finding): their cases are generated, executed and judged like all others, the failures are listed as
# HELD-STRATUM lines and in the evidence (held_strata) instead of being reported.  VERIF_C13_HELD= (empty) reports them as
# violations.
#   DRIVE_LETTER_FOLD_GROWS (Paths!DriveTag): win_paths on, case-insensitive, a string whose first name starts with U+0130 ':'
#   (a "drive" whose letter lower() turns into two characters): normalize_path("\u0130:") == "i\u0307:" but
#   normalize_path("i\u0307:") == "/i\u0307:" - not idempotent, and paths_match("\u0130:", normalize_path("\u0130:")) is False.
#   (ROOT_RESPELLED_EMPTYREL (Paths!HeldTag) was held until the defect behind it was repaired, repo commit 007fea6.)
HELD = ()       # DRIVE_LETTER_FOLD_GROWS was held until it was listed as known finding C13-DRIVE-LETTER-FOLD-GROWS


def held_strata():
    import os
    val = os.environ.get("VERIF_C13_HELD")
    return set(HELD) if val is None else {x for x in val.split(",") if x}


def nontrivial(ln):
    """A law's premise is met non-vacuously by this case (the rule stated in the evidence; counting, not judging)."""
    o, k = ln["o"], ln["kind"]
    if k == "U":
        return len(ln["p"]) > 0 and ln["p"] != o["n0"][1:]
    if k == "B":
        return o["mpq0"] == [2] or (len(ln["q"]) > 0 and o["sub"][0] == 1)
    if k == "T":
        return (o["mpq0"] == [2] and o["mqr0"] == [2]) or (len(ln["q"]) > 0 and o["out"][0] == 1)
    if k == "S":
        return len(ln["q"]) > 0 and (o["sub"][0] == 1 or o["out"][0] == 1)
    return len(ln["q"]) > 0 and o["xa"][0] == 1


def show_conv(c):
    return "sep=%r alt=%r case_sensitive=%s win_paths=%s" % (CH[c["sep"]], CH[3 - c["sep"]], bool(c["cs"]), bool(c["win"]))


def show_res(v):
    if v[0] == 1:
        return "".join(CH.get(x, "?") for x in v[1:])
    return {0: "False/None", 2: "True"}.get(v[0], "exception:%s" % {0: "not-evaluated", 1: "IndexError", 2: "ValueError"}.get(v[-1], "other"))


# ---- the check -------------------------------------------------------------------------------------------------------
MC_QUICK = [("MC_Paths.cfg", "design: all laws, 8 conventions, |p|<=2 |q|<=1"),
            ("MC_PathsX.cfg", "design: translation laws, 64 convention pairs, root |p|<=1 vs bare root, relative part |q|<=1"),
            ("MC_PathsSK.cfg", "design: folder laws on the 14 re-spellings of join(p), join(r), 4 conventions, |p|,|q|,|r|<=1"),
            ("MC_PathsY.cfg", "design: translation laws, roots as spelled (14 re-spellings of join(p) vs of the bare root), 16 convention pairs"),
            ("MC_PathsE.cfg", "design: one-sided laws over { / A U+00C9 U+0130 i U+0307 } (lower() of U+0130 is two characters), 8 conventions, "
                              "|p|<=3 |q|<=1")]
MC_THOROUGH = [("MC_PathsU.cfg", "design: unary laws, 8 conventions, |p|<=4"),
               ("MC_PathsT.cfg", "design: pair and triple laws, 8 conventions, |p|<=2 |q|<=2 |r|<=1"),
               ("MC_PathsXT.cfg", "design: translation laws, 64 convention pairs, roots |.|<=1, relative part |q|<=2"),
               ("MC_PathsST.cfg", "design: folder laws on folders as spelled, 8 conventions, raw |p|<=3 and 14 re-spellings, |q|<=1, |r|<=1"),
               ("MC_PathsYT.cfg", "design: translation laws, roots as spelled (raw and 14 re-spellings, |p|,|r|<=1), 64 convention pairs"),
               ("MC_PathsET.cfg", "design: one-sided laws over { / A e-acute U+00C9 U+0130 i U+0307 }, 8 conventions, |p|<=3 |q|<=2")]


def bounds(tier):
    """U: |p|; B: (|p|, |q|); T: (|p|, |q|, |r|); XALL: (|r0|, |q|, |r1|) for all 64 ordered pairs of configurations;
    XDEEP: further bounds for the 16 pairs (same configuration, opposite configuration);
    S: folders as spelled, [(lp, lq, lr, folder name characters, characters of one-character relative parts, of longer ones,
    spelling numbers, further name characters where win_paths is on)] - arguments of generate_spelled;
    YONE: one root as spelled against the bare root of the other side, 16 pairs (same: side 0 spelled; opposite: either side),
    [(lp, lq, ...)]; YBOTH: both roots as spelled (the same spelling number), all 64 pairs, [(lp, lq, lr, ...)];
    EXT: [(kind, lp, lq, lr, alphabet)] - further U / B / T families over alphabets with names that change under lower():
    U+00C9 (lower: U+00E9) and U+0130 (lower: 'i' U+0307, two characters), in leaf and in folder position; S families here take
    every string p as the folder AS SPELLED (drive paths like "a:/a" included)."""
    a, A, dot, sl, bs, ea, colon = (CODE[x] for x in "aA./\\é:")
    uea, idot, li, cdot = (CODE[x] for x in "É\u0130i\u0307")
    every = tuple(range(1, 8))
    if tier == "quick":
        return dict(U=4, B=(2, 2), T=(1, 1, 1), XALL=(1, 1, 0), XDEEP=[(1, 1, 1), (1, 2, 0), (0, 2, 1)], nlong=40, mc=MC_QUICK,
                    S=[(3, 1, 0, (a, A), (sl, bs, a, A, ea), (), ALL_SPELLS), (1, 1, 1, (a, A), (sl, bs, a, A, ea), (), (1, 2, 3, 7, 12, 13))],
                    YONE=[(1, 1, (a, A), (sl, bs, a, A, ea), (), (1, 2, 3, 6, 7, 12, 13))], YBOTH=[],
                    EXT=[("U", 4, 0, 0, (sl, A, uea, idot)), ("B", 2, 2, 0, (sl, idot, li, cdot)),
                         ("U", 3, 0, 0, (sl, idot, colon)),           # (the held class, win_paths configurations)
                         ("S", 4, 0, 0, (sl, a, colon))])             # drive PATHS ("a:/a") handed over as folders
    return dict(U=5, B=(3, 2), T=(2, 2, 1), XALL=(1, 1, 1), XDEEP=[(1, 2, 1), (2, 1, 1)], nlong=400, mc=MC_QUICK + MC_THOROUGH,
                S=[(3, 3, 0, (a, A, dot), every, (sl, bs, a), ALL_SPELLS, (colon,)), (2, 1, 1, (a, A, dot), every, (), ALL_SPELLS, (colon,))],
                YONE=[(1, 2, (a, A), every, (sl, bs, a, A), ALL_SPELLS)], YBOTH=[(1, 1, 1, (a, A), every, (), ALL_SPELLS)],
                EXT=[("U", 5, 0, 0, (sl, bs, A, uea, idot)), ("U", 4, 0, 0, (sl, idot, li, cdot, uea, ea)),
                     ("B", 2, 2, 0, (sl, idot, li, cdot, uea, ea)), ("T", 1, 1, 1, (sl, idot, li, cdot, uea, ea)),
                     ("U", 4, 0, 0, (sl, idot, colon, A)), ("B", 2, 2, 0, (sl, idot, colon)),
                     ("S", 4, 1, 0, (sl, bs, a, colon))])


def fam_text(f):
    lens = [x for x in f if isinstance(x, int)]
    names, shortq, longq, spells = [x for x in f if not isinstance(x, int)][:4]
    return "(|.|<=%s, names %r, short q %r, long q %r, spellings %s)" % (
        "/".join(map(str, lens)), s2p(names), s2p(shortq), s2p(longq), "all" if tuple(spells) == ALL_SPELLS else list(spells))


def partner(c):
    """The convention that differs from c in everything (other separator, other case rule, other drive rule)."""
    return (3 - c[0], 1 - c[1], 1 - c[2])


def plan(b):
    """[(kind, convention, convention2, (win, lp, lq, lr[, alphabet]))]: which TLC-enumerated family feeds which configuration."""
    out = []
    for t in CONVS:
        out.append(("U", t, None, (t[2], b["U"], 0, 0)))
        out.append(("B", t, None, (t[2], b["B"][0], b["B"][1], 0)))
        out.append(("T", t, None, (t[2],) + tuple(b["T"])))
        for kind, lp, lq, lr, ext in b["EXT"]:          # names that change under lower(): their own alphabets
            out.append((kind, t, None, (0, lp, lq, lr, tuple(ext))))
    for ta in CONVS:
        for tb in CONVS:
            fams = [tuple(b["XALL"])] + ([tuple(d) for d in b["XDEEP"]] if tb == ta or tb == partner(ta) else [])
            for f in fams:       # a family contained in another one of the same pair would only repeat its cases
                if not any(g != f and all(x <= y for x, y in zip(f, g)) for g in fams):
                    out.append(("X", ta, tb, (max(ta[2], tb[2]),) + f))
    return out


def spelled_families(b):
    """The Gen_PathsSpell runs needed: argument tuples of generate_spelled."""
    return sorted({tuple(f) for f in b["S"]} | {(lp, lq, 0) + tuple(rest) for lp, lq, *rest in b["YONE"]} | {tuple(f) for f in b["YBOTH"]})


def spelled_cases(ctx, b):
    """Cases on folders as spelled: S for the 8 configurations, Y for pairs of configurations.  Every folder / root string
    comes from TLC (Gen_PathsSpell) and is used exactly as printed; the un-spelled root of the other side of a YONE case is
    that side's separator (as in CloudSync(roots=(sep, sep)))."""
    S, Y = [], []
    for t in CONVS:
        seen = set()
        for f in b["S"]:
            for fs, q, gs, _k in generate_spelled(ctx, *f)[(t[0], t[2])]:
                key = (tuple(fs), tuple(q), tuple(gs))
                if key not in seen:
                    seen.add(key)
                    S.append({"kind": "S", "c": conv(t), "c2": C0, "p": fs, "q": q, "r": gs})
    for ta in CONVS:
        for tb in CONVS:
            win = max(ta[2], tb[2])
            seen = set()

            def add(r0, q, r1):
                key = (tuple(r0), tuple(q), tuple(r1))
                if key not in seen:
                    seen.add(key)
                    Y.append({"kind": "Y", "c": conv(ta), "c2": conv(tb), "p": r0, "q": q, "r": r1})
            if tb == ta or tb == partner(ta):
                for lp, lq, *rest in b["YONE"]:
                    fam = generate_spelled(ctx, lp, lq, 0, *rest)
                    for fs, q, _gs, _k in fam[(ta[0], win)]:
                        add(fs, q, [tb[0]])
                    if tb != ta:         # (same configuration on both sides: the mirror image of the above)
                        for fs, q, _gs, _k in fam[(tb[0], win)]:
                            add([ta[0]], q, fs)
            for f in b["YBOTH"]:
                for fs, q, gs, _k in generate_spelled(ctx, *f)[(ta[0], win)]:
                    add(fs, q, gs)
    return S, Y


def run(ctx):
    from concurrent.futures import ThreadPoolExecutor
    b = bounds(ctx.tier)
    ctx.extra["rule"] = (
        "cases = (helper configuration, inputs) enumerated by TLC (Gen_Paths: every string / pair / triple within the family "
        "bounds over {/ \\ a A . space e-acute} plus ':' for win_paths configurations; Gen_PathsLong: simulated long paths and "
        "spelling variants; Gen_PathsSpell: folders written un-normalised); each case is one trace line with ~20 real helper results, judged by TLC (Trace_Paths). "
        "non-trivial = distinct cases where a law's premise is met non-vacuously: U normalisation changes the string; "
        "B the pair matches or the joined path is reported inside with a non-empty relative part; T both matches hold or a "
        "non-empty relative part was moved by replace_path; X / Y a non-empty relative part was translated; S a non-empty relative "
        "part was reported inside / moved for a folder as spelled")
    ctx.assume(
        "characters are represented by 12 classes: both separators, 'a', 'A', '.', ' ', U+00E9, ':' (':' enumerated only where "
        "win_paths is on, and in the long random paths), and - in the EXT families and the long random paths - U+00C9, U+0130 "
        "(lower() = 'i' U+0307: the only character whose lower-casing changes the length), 'i', U+0307",
        "the helpers are exercised on bare Provider subclasses (abstract methods stubbed) that only set sep / alt_sep / "
        "case_sensitive / win_paths; "
        "translate on real CloudSync objects whose roots attribute is assigned per case; is_subpath_of_root with the "
        "provider's _root_path attribute assigned per case",
        "folder laws are stated for absolute folders join(f) and relative parts that are not drive-qualified where win_paths "
        "is on (join('\\', 'a:') is 'a:' by design, as on Windows); 'outside the roots' is decided name by name "
        "(case-folded where the provider is case-insensitive)",
        "paths_match(None, ...) is not exercised (no representation of None inputs)",
        "folders as spelled (kinds S, Y): the laws are stated for every string that leads with a separator (either one) or, where "
        "win_paths is on, a drive; enumerated: the 14 spellings Paths!Spell of folders with one or two names (long random ones: a "
        "separator put in front of a random string and of its spelling variants)",
        "held input class %s (law failures listed as HELD-STRATUM, not reported; VERIF_C13_HELD= reports them): win_paths on, "
        "case-insensitive, a string whose first name starts with U+0130 ':' - normalize_path is not idempotent there"
        % (", ".join(sorted(held_strata())) or "(none)"))

    # design runs and input enumeration: independent TLC runs, side by side
    todo = plan(b)
    fams = sorted({p[3] for p in todo})
    with ThreadPoolExecutor(max_workers=max(2, ctx.workers // 2)) as ex:
        mcs = [ex.submit(ctx.tlc, "Paths", cfg, what=what, count=False, workers=max(2, ctx.workers // 4), heap="3g")
               for cfg, what in b["mc"]]
        gens = [ex.submit(generate, ctx, *f) for f in fams] + [ex.submit(generate_spelled, ctx, *f) for f in spelled_families(b)]
        for (cfg, what), fut in zip(b["mc"], mcs):
            res = fut.result()
            if not res.ok:       # a counterexample on the committed specification must be triaged by hand
                raise MachineryError("design-level TLC run Paths/%s not clean (violated=%s rc=%s)\n%s"
                                     % (cfg, res.violated, res.rc, res.tail(50)))
            ctx.cov["states"] += res.distinct
            ctx.cov["transitions"] += res.generated
        for fut in gens:
            fut.result()

    # known-finding exemplars are re-executed on every run (first lines of the first batch)
    exemplars = [f["exemplar"] for f in ctx.findings if f.get("exemplar")]

    by_kind = {"U": [], "B": [], "T": [], "X": [], "S": [], "Y": []}
    seen = set()
    for kind, ta, tb, f in todo:
        triples = generate(ctx, *f)
        if kind == "X":          # the bounds of one pair of configurations overlap: keep each input once
            fresh = []
            for t in triples:
                key = (ta, tb, tuple(t[0]), tuple(t[1]), tuple(t[2]))
                if key not in seen:
                    seen.add(key)
                    fresh.append(t)
            triples = fresh
        by_kind[kind] += cases_for(kind, conv(ta), conv(tb) if tb else C0, triples)
    del seen
    spelled = spelled_cases(ctx, b)
    by_kind["S"] += spelled[0]
    by_kind["Y"] += spelled[1]
    ctx.extra["families"] = {
        "U": "every string |p|<=%d, 8 configurations" % b["U"],
        "B": "every pair |p|<=%d |q|<=%d, 8 configurations" % b["B"],
        "T": "every triple |p|<=%d |q|<=%d |r|<=%d, 8 configurations" % b["T"],
        "X": "translation (root0 = join(r0), root1 = join(r1), relative part q): every (|r0|, |q|, |r1|) <= %s for all 64 ordered "
             "pairs of configurations, and <= %s for the 16 pairs (same, opposite)" % (b["XALL"], " / ".join(map(str, b["XDEEP"]))),
        "EXT": "the same U / B / T laws over alphabets with letters that change under lower() - U+00C9 'E acute' and U+0130 'I with dot "
               "above', whose lower() is the two characters 'i' U+0307 - every string / pair / triple, 8 configurations: %s"
               % " / ".join("%s |p|<=%d |q|<=%d |r|<=%d over %r" % (k, lp, lq, lr, s2p(x)) for k, lp, lq, lr, x in b["EXT"]),
        "S": "folder laws on folders AS SPELLED (Paths!Spell numbers: 0 as join writes it, 1-5 separators at the end, 6-8 alternate "
             "separators throughout, 9-11 doubled inside, 12 doubled in front, 13 everything doubled): folder F = Spell(join(p), k), "
             "new folder G = Spell(join(r), k), relative part q; 8 configurations; %s (':' added to one-character relative parts, "
             "in the thorough tier also to the names, where win_paths is on)" % " / ".join(fam_text(f) for f in b["S"]),
        "Y": "translation with the roots AS SPELLED: one root Spell(join(p), k) against the bare root of the other side for the 16 "
             "pairs (same, opposite) with %s; both roots re-spelled for all 64 pairs with %s" % (" / ".join(fam_text(f) for f in b["YONE"]) or "-", " / ".join(fam_text(f) for f in b["YBOTH"]) or "-")}
    ctx.extra["exhaustive_cases"] = {k: len(v) for k, v in by_kind.items()}
    ctx.cov["exhaustive"] = True
    ctx.sample({"kind": "U", "convention": show_conv(by_kind["U"][100]["c"]), "p": s2p(by_kind["U"][100]["p"])})
    ctx.sample({"kind": "T", "convention": show_conv(by_kind["T"][-100]["c"]),
                **{k: s2p(by_kind["T"][-100][k]) for k in "pqr"}})
    if ctx.tier == "quick":
        run_cases(ctx, exemplars + [x for k in "UBTXSY" for x in by_kind[k]], "finding exemplars + exhaustive families")
    else:
        for k in "UBTXSY":                 # one slice of one kind at a time keeps the driver's memory bounded
            todo_k, by_kind[k] = (exemplars if k == "U" else []) + by_kind[k], None
            for at in range(0, len(todo_k), SLICE):
                run_cases(ctx, todo_k[at:at + SLICE], "exhaustive family %s [%d..]" % (k, at))

    # long random paths
    res = ctx.tlc("Gen_PathsLong", "Gen_PathsLong.cfg", what="simulate long paths and variants", workers=1, count=False,
                  simulate="num=%d" % b["nlong"], depth=100, extra=["-seed", str(ctx.seed + 1)], heap="3g")
    longs = tc.parse_histories(res)
    if len(longs) < b["nlong"]:
        raise MachineryError("long path generator produced only %d inputs\n%s" % (len(longs), res.tail()))
    lcases = []
    for n, t in enumerate(longs):
        for ta in CONVS:
            c = conv(ta)
            lcases += cases_for("U", c, C0, [[t[0], [], []], [t[1], [], []], [t[2], [], []]])
            lcases += cases_for("B", c, C0, [[t[0], t[1], []], [t[1], t[2], []]])
            lcases += cases_for("T", c, C0, [t, [t[2], t[0], t[1]]])
            lcases += cases_for("S", c, C0, [[t[3], t[0], t[4]], [t[4], t[1], t[3]]])       # long folders as spelled
            for tb in (ta, partner(ta), CONVS[(n + CONVS.index(ta)) % 8]):
                lcases += cases_for("X", c, conv(tb), [t])
            lcases += cases_for("Y", c, conv(partner(ta) if n % 2 else ta), [[t[3], t[0], t[4]]])
    ctx.extra["long_inputs"] = len(longs)
    ctx.extra["long_cases"] = len(lcases)
    ctx.sample({"long": [s2p(x) for x in longs[0]]})
    run_cases(ctx, lcases, "long random paths")

    ctx.count(nontrivial=len(ctx.extra.pop("_nontrivial", ())))
    list_held(ctx)


def list_held(ctx):
    for tag, ent in sorted(ctx.extra.get("held_strata", {}).items()):
        for ex in ent["examples"]:
            print("HELD-STRATUM: property=C13 stratum=%s clause=%s (%d witnesses kept in this stratum this run: %s) e.g. %s"
                  % (tag, ex["clause"], ent["witnesses"], ent["clauses"],
                     {k: ex["case"][k] for k in ("kind", "convention", "p", "q", "r")}))


def replay(ctx, rep):
    case = rep["case"]
    run_cases(ctx, [case], "replay")
    ctx.count(nontrivial=len(ctx.extra.pop("_nontrivial", ())))
    list_held(ctx)
    ctx.sample(case)


if __name__ == "__main__":
    main("C13", run, replay)

"""
C09 - storage backends behave as a durable, tag-isolated map of rows.

design:     Storage.tla / MC_Storage.cfg (TLC, exhaustive for 2 tags x 2 ids x 2 value classes)
spec->code: Gen_Storage enumerates every call history up to MaxLen (and long random ones by -simulate);
            each is executed on a fresh SqliteStorage (real file) and a fresh MockStorage
code->spec: what the backends really returned is written as a trace; Trace_Storage (TLC) replays it against
            Storage.tla and names the clause that fails.  Python only executes and records.
concurrent: threads hammer one sqlite file; the recorded call/return history must have a linearisation
            (Trace_StorageConc, TLC searches the linearisation points).
"""
import os
import random
import tempfile
import threading

from ..core import import_repo, MachineryError
from ..runner import main
from .. import tracecheck as tc

BIG = bytes(range(256)) * 800          # ~200 KiB
CLASSES = [b"", b"ascii-bytes", b"\xff\xfe\x00\x80non-utf8", BIG, 7]   # 7: integers are stored as cursors


def backends():
    import_repo()
    from cloudsync import SqliteStorage
    from cloudsync.tests.fixtures.mock_storage import MockStorage

    class Sq:
        name = "SqliteStorage"

        def __init__(self, scratch):
            fd, self.fn = tempfile.mkstemp(prefix="c09_", suffix=".db", dir=scratch)
            os.close(fd)
            self.s = SqliteStorage(self.fn)

        def reopen(self):
            self.s.close()
            self.s = SqliteStorage(self.fn)

        def done(self):
            try:
                self.s.close()
            finally:
                for suf in ("", "-wal", "-shm"):
                    try:
                        os.unlink(self.fn + suf)
                    except OSError:
                        pass

    class Mk:
        name = "MockStorage"

        def __init__(self, scratch):
            self.d = {}
            self.s = MockStorage(self.d)

        def reopen(self):
            self.s.close()
            self.s = MockStorage(self.d)

        def done(self):
            pass

    return [Sq, Mk]


def execute(hist, Backend, scratch, variant):
    """Run one specification history on a fresh backend; return the trace of what really happened."""
    b = Backend(scratch)
    vals = {1: CLASSES[variant % 5], 2: CLASSES[(variant + 1) % 5], 3: CLASSES[(variant + 2) % 5]}

    def dec(x):
        for k, v in vals.items():
            if type(x) is type(v) and x == v:
                return k
        return 0 if x is None else 99

    idmap, old = {}, {}          # (tag, spec id) -> real id ; last real id a (tag, spec id) had
    names = {}                   # real id -> small int, in order of first appearance

    def nm(real):
        if real not in names:
            names[real] = len(names) + 1
        return names[real]

    def real_id(t, i):
        if (t, i) in idmap:
            return idmap[(t, i)]
        if (t, i) in old:
            return old[(t, i)]
        for (u, j), r in idmap.items():      # an id that is live under ANOTHER tag: coinciding ids
            if j == i and u != t:
                return r
        return 900000 + i

    tr = []
    try:
        for op in hist:
            k = op["op"]
            tag = "tag%d" % op.get("tag", 0)
            ev = {"op": k, "exc": 0}
            if "tag" in op:
                ev["tag"] = op["tag"]
            try:
                if k == "create":
                    r = b.s.create(tag, vals[op["val"]])
                    idmap[(op["tag"], op["id"])] = r
                    ev.update(val=op["val"], id=nm(r))
                elif k == "update":
                    r = real_id(op["tag"], op["id"])
                    ev.update(id=nm(r), val=op["val"], ok=1)
                    try:
                        b.s.update(tag, vals[op["val"]], r)
                    except ValueError:
                        ev["ok"] = 0
                elif k == "delete":
                    r = real_id(op["tag"], op["id"])
                    ev.update(id=nm(r))
                    b.s.delete(tag, r)
                    if (op["tag"], op["id"]) in idmap:
                        old[(op["tag"], op["id"])] = idmap.pop((op["tag"], op["id"]))
                elif k == "read":
                    r = real_id(op["tag"], op["id"])
                    ev.update(id=nm(r), val=0)
                    ev["val"] = dec(b.s.read(tag, r))
                elif k == "read_all":
                    ev["m"] = []
                    ev["m"] = sorted([nm(i), dec(v)] for i, v in b.s.read_all(tag).items())
                elif k == "read_all_tags":
                    ev["mm"] = []
                    ev["mm"] = sorted([int(t[3:]), nm(i), dec(v)] for t, m in b.s.read_all().items()
                                      for i, v in m.items())
                elif k == "reopen":
                    b.reopen()
                else:
                    raise MachineryError("unknown op %r" % k)
            except MachineryError:
                raise
            except Exception as e:      # undocumented exception: recorded, judged by the trace spec
                ev["exc"] = 1
                ev["exc_type"] = type(e).__name__
                if k == "create":
                    ev.update(val=op["val"], id=nm(("failed", len(tr))))
            tr.append(ev)
    finally:
        b.done()
    return tr


# ---------------------------------------------------------------------------------------------------
def concurrent_history(scratch, seed, nthreads=4, nops=5):
    """Threads share one sqlite file and one tag; each works on rows it created plus read_all."""
    import_repo()
    from cloudsync import SqliteStorage
    fd, fn = tempfile.mkstemp(prefix="c09c_", suffix=".db", dir=scratch)
    os.close(fd)
    s = SqliteStorage(fn)
    log, lock, seq = [], threading.Lock(), [0]
    names = {}

    def nm(real):
        with lock:
            if real not in names:
                names[real] = len(names) + 1
            return names[real]

    def emit(rec):
        with lock:
            seq[0] += 1
            rec["seq"] = seq[0]
            log.append(rec)
        return rec

    def worker(th):
        rng = random.Random(seed * 100 + th)
        mine = []
        for n in range(nops):
            k = rng.choice(["create", "create", "update", "delete", "read", "read_all"])
            if k in ("update", "delete", "read") and not mine:
                k = "create"
            v = rng.randint(1, 3)
            if k == "create":
                call = emit({"ev": "call", "th": th, "op": k, "val": v, "id": 0})
                r = s.create("t", bytes([v]))
                mine.append(r)
                call["id"] = nm(r)      # the id the backend chose, filled in for the linearisation search
                emit({"ev": "ret", "th": th, "op": k, "id": nm(r), "val": v, "m": []})
            elif k == "update":
                r = rng.choice(mine)
                emit({"ev": "call", "th": th, "op": k, "val": v, "id": nm(r)})
                ok = 1
                try:
                    s.update("t", bytes([v]), r)
                except ValueError:
                    ok = 0
                emit({"ev": "ret", "th": th, "op": k, "id": nm(r), "val": ok, "m": []})
            elif k == "delete":
                r = rng.choice(mine)
                emit({"ev": "call", "th": th, "op": k, "val": 0, "id": nm(r)})
                s.delete("t", r)
                emit({"ev": "ret", "th": th, "op": k, "id": nm(r), "val": 0, "m": []})
            elif k == "read":
                r = rng.choice(mine)
                emit({"ev": "call", "th": th, "op": k, "val": 0, "id": nm(r)})
                x = s.read("t", r)
                emit({"ev": "ret", "th": th, "op": k, "id": nm(r), "val": (x[0] if isinstance(x, bytes) and x else 0) if not isinstance(x, tuple) else 99, "m": []})
            else:
                emit({"ev": "call", "th": th, "op": k, "val": 0, "id": 0})
                m = s.read_all("t")
                emit({"ev": "ret", "th": th, "op": k, "id": 0, "val": 0,
                      "m": sorted([nm(i), (x[0] if x else 0)] for i, x in m.items())})

    ths = [threading.Thread(target=worker, args=(i + 1,)) for i in range(nthreads)]
    for t in ths:
        t.start()
    for t in ths:
        t.join()
    # final read_all after everything returned: no acknowledged write may be lost
    emit({"ev": "call", "th": 1, "op": "read_all", "val": 0, "id": 0})
    m = s.read_all("t")
    emit({"ev": "ret", "th": 1, "op": "read_all", "id": 0, "val": 0, "m": sorted([nm(i), (x[0] if x else 0)] for i, x in m.items())})
    s.close()
    for suf in ("", "-wal", "-shm"):
        try:
            os.unlink(fn + suf)
        except OSError:
            pass
    log.sort(key=lambda r: r["seq"])
    return log


def gen_cfg(ctx, maxlen, vals="{1, 2}", ids="{1, 2}"):
    return tc.gen_cfg(ctx, "Gen_Storage_%d.cfg" % maxlen,
                      "CONSTANTS\n Tags = {1, 2}\n Ids = %s\n Vals = %s\n MaxLen = %d\n"
                      "SPECIFICATION GenSpec\nINVARIANT Emit\nCHECK_DEADLOCK FALSE\n" % (ids, vals, maxlen))


def judge(ctx, traces, meta, what):
    viols, _ = tc.validate(ctx, "Trace_Storage", "Trace_Storage.cfg", traces, what)
    seen = set()
    for ti, line, clause in viols:
        backend, hist = meta[ti]
        ev = traces[ti][line - 1]
        sig = {"clause": clause, "backend": backend, "op": ev["op"], "exc_type": ev.get("exc_type", ""),
               "reopened": any(e["op"] == "reopen" for e in traces[ti][:line - 1])}
        ctx.report(sig, {"history": hist, "line": line, "observed": ev, "backend": backend},
                   replay={"history": hist, "backend": backend})
    return viols


def _exec_chunk(args):
    bname, chunk, start, where = args
    B = [b for b in backends() if b.name == bname][0]
    return [execute(h, B, where, start + n) for n, h in enumerate(chunk)]


def run_histories(ctx, hists, what, fast=True):
    """fast: sqlite files on tmpfs (/dev/shm) - a file all the same, 18x cheaper to create; the simulated
    histories use the scratch directory on the real disk."""
    import multiprocessing
    where = ctx.scratch
    if fast and os.path.isdir("/dev/shm") and os.access("/dev/shm", os.W_OK):
        where = tempfile.mkdtemp(prefix="verif_c09_", dir="/dev/shm")
    traces, meta = [], []
    try:
        jobs = []
        step = max(50, len(hists) // (4 * ctx.workers) + 1)
        for bname in [b.name for b in backends()]:
            for k in range(0, len(hists), step):
                jobs.append((bname, hists[k:k + step], k, where))
        with multiprocessing.get_context("fork").Pool(ctx.workers) as pool:
            for job, trs in zip(jobs, pool.map(_exec_chunk, jobs)):
                traces.extend(trs)
                meta.extend((job[0], h) for h in job[1])
    finally:
        if where != ctx.scratch:
            import shutil
            shutil.rmtree(where, ignore_errors=True)
    ctx.count(evaluations=len(traces))
    return judge(ctx, traces, meta, what)


def run(ctx):
    ctx.extra["rule"] = ("every call history of Storage.tla up to MaxLen over 2 tags x 2 ids x 2 value classes "
                         "(TLC-enumerated), plus -simulate histories of length 12 over 3 value classes, each executed "
                         "on SqliteStorage (file) and MockStorage; non-trivial = history contains a mutating call "
                         "followed by a call on the same tag; distinct = distinct (backend, history)")
    ctx.assume("SqliteStorage is exercised on a real temporary file; durability means close + reopen, not power loss",
               "byte strings are represented by five classes (empty, ascii, non-UTF-8, ~200 KiB, integer cursor)")
    ctx.model_check("Storage", "MC_Storage.cfg", "design: tag isolation, frame, fresh ids, durable", coverage=False)

    # known-finding exemplars / fixed regressions first
    for f in ctx.findings:
        if f.get("exemplar"):
            ex = f["exemplar"]
            B = [b for b in backends() if b.name == ex["backend"]][0]
            tr = execute(ex["history"], B, ctx.scratch, 0)
            judge(ctx, [tr], [(B.name, ex["history"])], "exemplar " + f["id"])

    maxlen = 3 if ctx.tier == "quick" else 4
    res = ctx.tlc("Gen_Storage", gen_cfg(ctx, maxlen), what="generate all histories of length %d" % maxlen, workers=1)
    if not res.ok:
        raise MachineryError("generator failed\n" + res.tail())
    hists = tc.parse_histories(res)
    if len(hists) < 1000:
        raise MachineryError("generator produced only %d histories" % len(hists))
    ctx.cov["exhaustive"] = True
    ctx.extra["exhaustive_histories"] = len(hists)
    ctx.sample({"history": hists[len(hists) // 2]})
    run_histories(ctx, hists, "all histories len %d" % maxlen)

    nsim = 25 if ctx.tier == "quick" else 400
    res = ctx.tlc("Gen_Storage", gen_cfg(ctx, 12, vals="{1, 2, 3}", ids="{1, 2, 3}"), what="simulate long histories",
                  workers=1, simulate="num=%d" % nsim, depth=13, extra=["-seed", str(ctx.seed + 1)])
    sims = tc.parse_histories(res)
    if len(sims) < nsim:
        raise MachineryError("simulation produced only %d histories\n%s" % (len(sims), res.tail()))
    ctx.extra["simulated_histories"] = len(sims)
    ctx.sample({"simulated": sims[0]})
    run_histories(ctx, sims, "simulated histories len 12", fast=False)

    def nontrivial(h):
        for a in range(len(h) - 1):
            if h[a]["op"] in ("create", "update", "delete") and h[a + 1].get("tag", h[a]["tag"]) == h[a]["tag"]:
                return True
        return False
    ctx.count(nontrivial=2 * len({str(h) for h in hists + sims if nontrivial(h)}))

    # concurrent callers on one file
    nconc = 40 if ctx.tier == "quick" else 400
    conc = [concurrent_history(ctx.scratch, ctx.seed * 100000 + n) for n in range(nconc)]
    viols, done = tc.validate(ctx, "Trace_StorageConc", "Trace_StorageConc.cfg", conc, "concurrent sqlite histories",
                              dfs=True, must_complete=False, min_batch=10)
    ctx.count(evaluations=nconc, nontrivial=len({str([(e["th"], e["op"]) for e in c]) for c in conc}))
    ctx.extra["concurrent_histories"] = nconc
    ctx.extra["concurrent_linearisable"] = done
    ctx.sample({"concurrent": conc[0][:8]})
    if done != nconc:
        bad = sorted(set(range(nconc)) - {v[0] for v in viols if v[2] == "Completed"})
        ctx.report({"clause": "Linearisable", "backend": "SqliteStorage", "op": "concurrent"},
                   {"not_linearisable": len(bad), "first": conc[bad[0]] if bad else None},
                   replay={"concurrent": conc[bad[0]]} if bad else None)


def replay(ctx, rep):
    case = rep["case"]
    if "history" in case:
        B = [b for b in backends() if b.name == case["backend"]][0]
        tr = execute(case["history"], B, ctx.scratch, 0)
        judge(ctx, [tr], [(B.name, case["history"])], "replay")
        ctx.count(evaluations=1, nontrivial=2)
        ctx.sample(case)
    else:
        raise MachineryError("concurrent histories are not deterministic; re-run the check")


if __name__ == "__main__":
    main("C09", run, replay)

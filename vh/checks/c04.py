"""
C04 - non-conflicting concurrent changes merge exactly (no resurrection, no duplication).

Families: every two-sided history of exactly n operations whose per-window footprints are disjoint (Gen_Sys.tla with
Filter = "disjoint": neither side changes a path the other side changed or depends on; the specification applies both
sides' operations to ONE expected tree and requires every operation to apply there as it did on its own side), every
schedule token between operations; judged by Trace_Sys.tla at Quiet:
  AsExpected   both trees equal the base tree with both sides' changes applied (every delete stays deleted, every
               rename ends with the object - and a folder's children - only at the new path)
  NoArtefacts  no '.conflicted' name anywhere
(the commutation of the two sides' operation sequences is what FootprintsDisjoint + "applies on the expected tree"
establish in the specification; Converged / ReachesQuiet are also evaluated)
"""
from ..runner import main
from .. import syscheck as sc

CLAUSES = {"AsExpected", "NoArtefacts", "Converged", "ReachesQuiet", "NoEscape", "StaysQuiet"}
GAPS = ["I", "I1", "IS", "ISS", "SI", "Q"]


def plan(ctx):
    if ctx.tier == "quick":
        return dict(flavors=["oid/oid", "path/oidf"],
                    fams=[("dis2", "std", 2, None, 2500), ("dis4", "std", 4, "sim", 500)])
    return dict(flavors=["oid/oid", "path/oidf", "oidf/path", "path/path"],
                fams=[("dis2", "std", 2, None, None), ("dis2two", "two", 2, None, None), ("dis3", "std", 3, None, 12000),
                      ("dis5", "std", 5, "sim", 5000)])


def run(ctx):
    ctx.extra["rule"] = ("every two-sided history of exactly n operations with disjoint footprints (TLC-enumerated, "
                         "Filter=disjoint) x every schedule token x flavours; quick runs a seed-chosen slice; distinct = distinct "
                         "(flavour, token list); non-trivial = at least one effective engine write")
    ctx.assume("MockProvider flavours are the environment (bound to the provider contract by C16)", "virtual clock; ageing 0")
    ctx.model_check("SysMC", "MC_SysMC.cfg", "design: contract guards imply loss/confinement invariants", workers=4)
    sc.run_exemplars(ctx, CLAUSES)
    p = plan(ctx)
    exhaustive = True
    for name, uni, nops, mode, limit in p["fams"]:
        if mode == "sim":
            cases = sc.generate(ctx, name, [1, 2], nops, GAPS, uni, filt="cleandisjoint", simulate=(40, ctx.seed + 5))
            exhaustive = False
        else:
            cases = sc.generate(ctx, name, [1, 2], nops, GAPS, uni, filt="disjoint")
            ctx.extra.setdefault("family_sizes", {})[name] = len(cases)
        # only histories in which BOTH sides act are 'concurrent changes' (one-sided ones belong to C03)
        cases = [c for c in cases if {t[1] for t in c["tokens"] if t[0] == "U"} == {0, 1}]
        cases, full = sc.slice_cases(cases, limit, ctx.seed * 15485863 + nops)
        exhaustive = exhaustive and full
        sc.run_family(ctx, sc.with_flavors(cases, p["flavors"]), "disjoint two-sided %s" % name, CLAUSES)
    ctx.cov["exhaustive"] = exhaustive


def replay(ctx, rep):
    sc.replay_case(ctx, rep, CLAUSES)


if __name__ == "__main__":
    main("C04", run, replay)

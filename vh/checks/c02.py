"""
C02 - no silent data loss: only users destroy content; conflicts keep both versions.

Ghost ledger in Sys.tla: `written` (versions users wrote, each write a fresh id), `killed` (versions a user deleted or
overwrote on either side), `dropped` (versions a resolver answer explicitly discarded).  Judged by Trace_Sys.tla:
  LastCopy            at every engine delete / upload: the call does not destroy the last copy of a live version
  NoLoss              at every Quiet: every live version is still in a file on at least one side
  NoInventedContent   the engine only writes user versions or resolver output
  (corrupt copies)    a copy a provider reports as unreadable does not count as a copy: LastCopy / NoLoss demand a
                      READABLE copy of every live version, so the good copy on the other side may not be removed or
                      replaced because of the corrupt one, and unreadable bytes written anywhere show as unknown content
Families: conflict-heavy universe (both sides address the same few paths: same-path creates, edit/edit, edit/delete,
delete/recreate, file-vs-folder clashes), every history of n operations, every schedule token, resolver answers that
keep data, plus corrupt-read placements on every file of the base tree.
"""
from ..runner import main
from .. import syscheck as sc

CLAUSES = {"LastCopy", "NoLoss", "NoInventedContent"}
GAPS = ["I", "I1", "IS", "SI", "LSR", "RSL"]
TAILS = ["LSxR", "RSxL"]      # tail-only schedules: several sync steps on one side's events before the other side's arrive
RESOLVERS = [None, ["pick", 0, True], ["pick", 1, True], ["merge", False], ["raise"]]


def plan(ctx):
    if ctx.tier == "quick":
        return dict(flavors=["oid/oid", "path/oidf"], resolvers=[None, ["pick", 0, True]],
                    fams=[("conf2", "conf", 2, None, 900), ("mix2", "mix", 2, None, 500), ("conf4", "conf", 4, "sim", 500),
                          ("conf3tail", "conf", 3, "tail", 2500)],
                    corrupt=300)
    return dict(flavors=["oid/oid", "path/oidf", "oidf/path", "path/path"], resolvers=[None, ["pick", 0, True], ["merge", False], ["raise"]],
                fams=[("conf2", "conf", 2, None, None), ("mix2", "mix", 2, None, 2000), ("conf3", "conf", 3, None, 3000),
                      ("std2", "std", 2, None, 2500), ("conf5", "conf", 5, "sim", 2000),
                      ("conf3tail", "conf", 3, "tail", 4000), ("two3tail", "two", 3, "tail", 2000)],
                corrupt=3000)


def shape(case, trace=None, line=None):
    """Names the one history shape behind the listed finding C02-MOVED-SOURCE-RECREATED-TARGET-TAKEN (identification of a
    known finding only - the verdict itself is TLC's): one side moves a file P -> Q and later puts a new file at P, the other
    side puts a file at Q."""
    ops = [(t[1], t[2]) for t in case["tokens"] if t[0] == "U"]
    for i, (s, op) in enumerate(ops):
        if op[0] != "rename":
            continue
        p_, q_ = op[1], op[2]
        again = any(s2 == s and op2[0] == "create" and op2[1] == p_ for (s2, op2) in ops[i + 1:])
        taken = any(s2 != s and ((op2[0] == "create" and op2[1] == q_) or (op2[0] == "rename" and op2[2] == q_)) for (s2, op2) in ops)
        if again and taken:
            return {"shape": "MOVED_SOURCE_RECREATED_TARGET_TAKEN"}
    # C02-MERGED-ANSWER-OVERWRITES-LATER-EDIT: a merging resolver, both sides put different content at one path, and the same
    # path is written once more before the engine is quiet
    res = case.get("resolver")
    if res and res[0] == "merge" and len(ops) >= 3:
        for path in {tuple(op[1]) for _, op in ops if op[0] in ("create", "write")}:
            w = [(s, op) for s, op in ops if op[0] in ("create", "write") and tuple(op[1]) == path]
            if len(w) >= 3 and len({s for s, _ in w}) == 2:
                return {"shape": "MERGE_THEN_REWRITE"}
    return {"shape": ""}


def with_resolvers(cases, resolvers):
    out = []
    for r in resolvers:
        for c in cases:
            d = dict(c)
            if r:
                d["resolver"] = r
            out.append(d)
    return out


def corrupt_cases(cases):
    """Place a corrupt-read fault on each file of the base tree, before the history starts."""
    out = []
    for c in cases:
        for side in (0, 1):
            for path in ([10, 1], [10, 3, 2]):
                d = dict(c)
                d["tokens"] = [["C", side, path]] + c["tokens"]
                d["family"] = c["family"] + "+corrupt"
                out.append(d)
    return out


def run(ctx):
    ctx.extra["rule"] = ("every two-sided history of exactly n operations over a universe in which the two sides collide "
                         "(TLC-enumerated) x schedule tokens x resolver answers that keep data x flavours, plus the same "
                         "histories with a corrupt-read fault placed on each base file; quick = seed-chosen slices; "
                         "non-trivial = at least one effective engine write")
    ctx.assume("MockProvider flavours are the environment (bound to the provider contract by C16)", "virtual clock; ageing 0",
               "content versions are identified by their bytes; every user write uses fresh bytes")
    ctx.model_check("SysMC", "MC_SysMC.cfg", "design: LastCopy/ContentOK guards make NoLoss inductive for any engine", workers=4)
    sc.run_exemplars(ctx, CLAUSES, extra_sig=shape)
    p = plan(ctx)
    exhaustive = True
    pool = []
    for name, uni, nops, mode, limit in p["fams"]:
        if mode == "sim":
            cases = sc.generate(ctx, name, [1, 2], nops, GAPS, uni, simulate=(40, ctx.seed + 3))
            exhaustive = False
        else:
            cases = sc.generate(ctx, name, [1, 2], nops, TAILS if mode == "tail" else GAPS, uni)
            ctx.extra.setdefault("family_sizes", {})[name] = len(cases)
        cases, full = sc.slice_cases(cases, limit, ctx.seed * 32452843 + nops)
        exhaustive = exhaustive and full
        pool += cases
        res = p["resolvers"] if mode != "tail" else ([None] if ctx.tier == "quick" else [None, ["pick", 0, True]])
        sc.run_family(ctx, sc.with_flavors(with_resolvers(cases, res), p["flavors"]), "conflict family %s" % name, CLAUSES, extra_sig=shape)
    cc, _ = sc.slice_cases(corrupt_cases([c for c in pool if c["base"] == "std"]), p["corrupt"], ctx.seed + 17)
    sc.run_family(ctx, sc.with_flavors(cc, p["flavors"]), "corrupt-read placements", CLAUSES, extra_sig=shape)
    ctx.cov["exhaustive"] = exhaustive


def replay(ctx, rep):
    sc.replay_case(ctx, rep, CLAUSES, extra_sig=shape)


if __name__ == "__main__":
    main("C02", run, replay)

"""
C20 - on-demand sync: remote files stay remote until requested; unsync keeps remote.

Family (Gen_Smart.tla): remote holds files and a folder, local only the mirrored folder; every sequence of n actions - remote
create / overwrite / delete, local create / overwrite, request by path or by id, un-request, merged listing - with schedule
tokens (run to quiet / intake + one sync step / nothing) in between; with and without an auto-sync predicate; per flavour.
The real SmartCloudSync methods run on the traced engine.  Judged by Trace_Sys.tla:
  DownloadOnlyOnDemand     every engine create/upload on the LOCAL side writes a file that was requested, matches the auto-sync
                           predicate, or was created/edited locally by a user
  UnrequestedStayRemote / RequestedDownloaded / LocalFilesInSync / FoldersMirrored     at every quiet point
  UnsyncKeepsRemote / UnsyncRemovesLocal / UnsyncUploadsNewerFirst                      around every un-request call
  ListingTruth             the merged listing reports every local file as synced and every not-downloaded remote file as not
"""
from ..core import MachineryError
from ..runner import main
from .. import syscheck as sc
from .. import sysfam
from .. import tracecheck as tc

CLAUSES = {"DownloadOnlyOnDemand", "UnrequestedStayRemote", "RequestedDownloaded", "LocalFilesInSync", "FoldersMirrored",
           "UnsyncKeepsRemote", "UnsyncRemovesLocal", "UnsyncUploadsNewerFirst", "ListingTruth", "NoEscape", "ReachesQuiet",
           "FailedUnsyncKeepsLocal"}


def generate(ctx, nops, gaps, simulate=None):
    cfg = tc.gen_cfg(ctx, "Gen_Smart_%d.cfg" % nops, "CONSTANTS\n MaxOps = %d\n Gaps = {%s}\nSPECIFICATION Spec\nINVARIANT Emit\n"
                     "CHECK_DEADLOCK FALSE\n" % (nops, ", ".join('"%s"' % g for g in gaps)))
    if simulate:
        res = ctx.tlc("Gen_Smart", cfg, what="simulate on-demand behaviours", workers=1, count=False,
                      simulate="num=%d" % simulate[0], depth=nops + 1, extra=["-seed", str(simulate[1])])
        if res.error:
            raise MachineryError("Gen_Smart failed\n" + res.tail())
    else:
        res = ctx.tlc("Gen_Smart", cfg, what="enumerate on-demand behaviours", workers=1)
        if not res.ok:
            raise MachineryError("Gen_Smart failed\n" + res.tail())
    seen, out = set(), []
    for h in tc.parse_histories(res):
        k = str(h)
        if k not in seen:
            seen.add(k)
            out.append(h)
    return out


def xsig(case, trace, line):
    ev = trace[line - 1]
    last_app = [e["mgr"] for e in trace[:line] if e["ev"] == "StepBegin"]
    return {"auto": bool(case.get("auto")), "during": last_app[-1] if last_app else ""}


def run(ctx):
    ctx.extra["rule"] = ("every sequence of n on-demand actions (Gen_Smart.tla) x schedule tokens x {no predicate, auto-sync predicate on "
                         "one name} x flavours; distinct = distinct (flavour, behaviour, predicate); non-trivial = contains a request or "
                         "an un-request")
    ctx.assume("MockProvider flavours are the environment; virtual clock; ageing 0",
               "the SmartCloudSync methods are bound onto the traced CloudSync subclass (same functions, same state/manager classes)")
    quick = ctx.tier == "quick"
    flavors = ["oid/oid", "path/oidf"] if quick else ["oid/oid", "path/oidf", "oidf/path", "path/path"]
    hs = generate(ctx, 3, ["Q", "IS", "N"])
    ctx.extra["family_size"] = len(hs)
    if quick:
        hs, _ = sc.slice_cases(hs, 500, ctx.seed + 3)
        # request -> un-request -> any two further actions (re-request, remote edit, ...), each run to quiet
        def acts(x):
            return [t for t in x if t[0] in ("Req", "Unreq", "U", "List")]
        hs = hs + [x for x in generate(ctx, 4, ["Q"])
                   if acts(x)[0][0] == "Req" and acts(x)[1][0] == "Unreq" and acts(x)[1][1] == acts(x)[0][2]]
    else:
        hs4, _ = sc.slice_cases(generate(ctx, 4, ["Q", "IS", "N"]), 6000, key="smart4")
        hs += hs4
    cases = []
    # an un-request of a requested file with a newer local edit, with a provider fault at the k-th call the engine makes during it:
    # either the edit reaches the remote before the local copy goes (UnsyncUploadsNewerFirst) or the call fails and the local
    # copy stays (FailedUnsyncKeepsLocal)
    for k in range(1, 9):
        for kind in (4, 5):
            cases.append({"base": "std", "base_side": 1, "smart": True, "auto": [], "family": "smartfault", "kase": {"kind": "c20", "auto": []},
                          "tokens": [["Req", "path", [10, 1]], ["Q"], ["U", 0, ["write", [10, 1], 31]], ["F", k, kind], ["Unreq", [10, 1]],
                                     ["Q"], ["List", [10]]]})
    for auto in ([], [2]):
        for h in hs:
            cases.append({"base": "std", "base_side": 1, "tokens": h, "smart": True, "auto": auto, "family": "smart",
                          "kase": {"kind": "c20", "auto": auto}})
    allc = sc.with_flavors(cases, flavors)
    for k in range(0, len(allc), sc.CHUNK):          # chunked: see syscheck.run_family
        sub = allc[k:k + sc.CHUNK]
        sysfam.judge(ctx, sub, sysfam.run_cases(ctx, sub), "on-demand family", clauses=CLAUSES, extra_sig=xsig)
    ctx.count(evaluations=len(allc), nontrivial=len({str([c["flavor"], c["tokens"], c["auto"]]) for c in allc
                                                     if any(t[0] in ("Req", "Unreq") for t in c["tokens"])}))
    ctx.sample({k: allc[len(allc) // 3][k] for k in ("flavor", "tokens", "auto")})


def replay(ctx, rep):
    case = rep["case"]
    traces = sysfam.run_cases(ctx, [case])
    sysfam.judge(ctx, [case], traces, "replay", clauses=CLAUSES, extra_sig=xsig)
    ctx.count(evaluations=1, nontrivial=2)
    ctx.sample(case)


if __name__ == "__main__":
    main("C20", run, replay)

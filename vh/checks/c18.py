"""
C18 - service loops (cloudsync.runnable.Runnable) and notifications (cloudsync.notification.NotificationManager).

design:     Runnable.tla at shared-variable grain (loop thread + controller threads), TLC exhaustive:
              MC_Runnable.cfg / MC_Runnable2.cfg      code as found: the six clauses hold outside two recorded windows
              MC_RunnableWindow.cfg / ..Revoked.cfg   EXPECTED counterexamples (the two findings, design level)
              MC_RunnableFixedUncond.cfg              EXPECTED counterexample for the half repair
              MC_RunnableFixed.cfg / ..Fixed1.cfg     repaired stop() ordering: everything holds
              MC_RunnableBackoff.cfg                  the pause after an iteration against the law, loop sleep below min /
                                                      between min and max / above max
              MC_RunnablePauseMax.cfg                 EXPECTED counterexample: pause = max(sleep, in_backoff)
              MC_RunnableResetInRun.cfg               EXPECTED counterexample: stop request cleared by the loop thread
                                                      (head of run()) instead of start(): a stop() landing between
                                                      start() returning and the loop thread's first statement is lost
            Notifier.tla / MC_Notifier.cfg
spec->code: Gen_Runnable enumerates gated schedules (controller calls placed while the loop is inside do(), inside
            the sleep, not running, between the statements of stop() around its wake(), or during the start-up of
            the loop thread: thread object assigned but not started / thread bootstrapped, start() returned, run()
            not yet entered); a Runnable subclass whose do / interruptable_sleep / wake / wait rendezvous with the
            driver, and a threading.Thread subclass (substituted for the name `threading` inside cloudsync.runnable,
            from outside the repository) whose start() and run() do, force each schedule on the real class.
            Backoff: every do-outcome sequence up to a length x a grid of (min, max, mult) x the loop's ordinary sleep
            (below min, between min and max, above max), run(until=..., sleep=...) directly; Gen_Runnable family GP:
            the same dimension through start(sleep=...) on a gated loop thread.
            Gen_Notifier enumerates notify / deliver(fail) / stop sequences, executed on the real NotificationManager.
code->spec: everything that happened is recorded under one lock; Trace_Runnable (TLC) evaluates the property clauses
            on the recorded order, Trace_RunnableConc (TLC) searches a placement of the unlogged shared-variable
            steps that explains the trace (free-running threads with jittered controllers, and the gated runs).
Python only executes and records.
"""
import itertools
import json
import os
import random
import sys
import threading
import time

from ..core import import_repo, MachineryError
from ..runner import main
from .. import tracecheck as tc

S = 65536                     # trace unit: 1/65536 s (all parameters are dyadic, so scaled values are exact integers)
NORM = 1.0 / 1024             # the ordinary sleep passed to run()/start()
T_BLOCK = 6.0                 # a gated sleep released in "block" mode waits at most this long for its wake()
SETTLE = 12.0                 # generous: the driver waits this long for the threads to reach the predicted status
DRAIN = 30.0                  # last resort bound of the free run at the end of a gated schedule (no verdict depends on it)
STUCK_DO = 20                 # a waiting stop()/wait() is no longer waited for once the loop has entered do() this
                              # often since the call began (a heeded stop request allows one): counted, not timed
GATE_NAMES = ("boot", "pre", "do", "sleep", "wkE", "wkX", "wtE", "thS")
KINDS = {"start": None, "stopTW": (True, True), "stopTN": (True, False), "stopFW": (False, True),
         "stopFN": (False, False), "wake": None, "wait": None, "waitT": None}

# (min, max, mult=p/q): where the law min(max, min*mult^(k-1)) is well defined: min >= 0, max >= 0, mult >= 1
GRID = [(0.25, 1.0, (2, 1)), (0.25, 6.0, (3, 2)), (1.0, 6.0, (3, 1)), (0.25, 1.0, (1, 1)), (1.0, 0.5, (2, 1)),
        (0.0, 1.0, (2, 1)), (1.0, 1.0, (2, 1)), (0.25, 0.0, (2, 1)), (0.5, 6.0, (5, 4)), (0.25, 1.0, (3, 1)),
        (0.0, 0.0, (1, 1)), (1.0, 6.0, (1, 1))]
OUTS5 = ["did", "nothing", "backoff", "exc", "base"]

_tl = threading.local()
_K = {}


def scaled(x):
    y = x * S
    if y != int(y) or y < 0 or y >= 2 ** 30:
        raise MachineryError("sleep request %r is not representable exactly in trace units" % (x,))
    return int(y)


class Recorder:
    """All events of one trace; the sequence number is the position in the list, taken under one lock."""

    def __init__(self, cfg):
        self.lock = threading.Lock()
        self.ev = [dict(cfg, e="cfg")]
        self.ndo = 0

    def log(self, **ev):
        with self.lock:
            self.ev.append(ev)
            if ev["e"] == "do":
                self.ndo += 1

    @staticmethod
    def actor():
        return getattr(_tl, "actor", 9)


class Gates:
    """Rendezvous between the driver and the real threads.  status[t]: name of the gate thread t is held at,
    'run' (released / never held), 'idle' (controller between calls)."""

    def __init__(self, actors):
        self.cv = threading.Condition()
        self.status = {t: ("idle" if t else "run") for t in actors}
        self.permits = {t: 0 for t in actors}
        self.free = False
        self.mode = "poll"
        self.gate_ths = False                  # hold the starter at the entry of Thread.start() (two controllers only)
        self.skip = {"boot": 0, "thS": 0}      # start-up gates to walk through (the start() that precedes a schedule)

    def park(self, t, gate):
        with self.cv:
            if self.free:
                return
            if self.skip.get(gate, 0) > 0:
                self.skip[gate] -= 1
                return
            self.status[t] = gate
            self.cv.notify_all()
            t0 = time.time()
            while not self.free and self.permits[t] == 0:
                self.cv.wait(1.0)
                if time.time() - t0 > 4 * SETTLE:      # the driver is gone: never hang a real thread
                    self.free = True
            if self.permits[t] > 0:
                self.permits[t] -= 1
            self.status[t] = "run"

    def release(self, t):
        with self.cv:
            self.status[t] = "released"        # the thread itself says "run" once it has left the gate
            self.permits[t] += 1
            self.cv.notify_all()

    def set(self, t, s):
        with self.cv:
            self.status[t] = s
            self.cv.notify_all()

    def open(self):
        with self.cv:
            self.free = True
            self.cv.notify_all()


class _LogProxy:
    """Stands in for cloudsync.runnable.log (from outside the repository): the debug line at the head of the finally
    block of run() is the last observable point before the final-stop flag is read."""

    def __init__(self, real):
        self._real = real

    def debug(self, msg, *a, **k):
        if isinstance(msg, str) and msg.startswith("stopping "):
            cur = getattr(_tl, "cur", None)
            if cur is not None and not cur._fin_logged:
                cur._fin_logged = True
                cur._rec.log(e="fin")

    def __getattr__(self, n):
        return getattr(self._real, n)


class _ThreadingProxy:
    """Stands in for the name `threading` inside cloudsync.runnable (from outside the repository): everything is the
    real module except Thread, so that the start-up of a loop thread can be observed and held."""

    def __init__(self, real, thread_cls):
        self._real = real
        self.Thread = thread_cls

    def __getattr__(self, n):
        return getattr(self._real, n)


def K():
    """Classes over the repository's Runnable (built once per process, after import_repo)."""
    if _K:
        return _K
    import_repo()
    import cloudsync.runnable as R
    if not isinstance(R.log, _LogProxy):
        R.log = _LogProxy(R.log)

    class LoopThread(threading.Thread):
        """The thread object start() creates.  start(): 'Thread.start() entered' is logged (the thread object is
        assigned, nothing runs yet) and, in gated mode with a second controller, the starter is held there.
        run(): the new thread has bootstrapped (Thread.start() returns to the starter) and is held before the
        first statement of the service's run()."""

        def _owner(self):
            o = getattr(getattr(self, "_target", None), "__self__", None)
            return o if isinstance(o, HR) else None

        def start(self):
            o = self._owner()
            if o is not None:
                a = Recorder.actor()
                o._rec.log(e="thS", a=a)
                if o._gates and o._gates.gate_ths:
                    o._gates.park(a, "thS")
            return threading.Thread.start(self)

        def run(self):
            o = self._owner()
            if o is not None and o._gates:
                _tl.booted = True
                o._gates.park(0, "boot")
            return threading.Thread.run(self)

    if not isinstance(R.threading, _ThreadingProxy):
        R.threading = _ThreadingProxy(R.threading, LoopThread)

    class Boom(BaseException):
        pass

    class HR(R.Runnable):
        """do / interruptable_sleep / wake / wait / done are the class's public overridable methods: each logs its entry
        and, in gated mode, waits for the driver."""

        def __init__(self, rec, params=None, script=(), gates=None, outcome=None, real_sleep=False):
            self._rec = rec
            self._script = list(script)
            self._gates = gates
            self._outcome = outcome          # callable for free-running mode
            self._real_sleep = real_sleep
            self._fin_logged = False
            self._in_block = False
            self.ncalls = 0
            if params:
                mn, mx, (p, q) = params
                self.min_backoff, self.max_backoff, self.mult_backoff = mn, mx, p / q

        # -- loop side -------------------------------------------------------------------------------
        def run(self, **kw):
            _tl.actor, prev = 0, getattr(_tl, "actor", None)
            _tl.cur = self
            self._fin_logged = False
            exc = 0
            if self._gates and not getattr(_tl, "booted", False):
                self._gates.park(0, "boot")       # the thread object is not the substituted class: hold the thread here
            _tl.booted = False
            self._rec.log(e="run")
            try:
                return R.Runnable.run(self, **kw)
            except BaseException:
                exc = 1
                raise
            finally:
                if not self._fin_logged:          # the hook did not fire: log it late (less tight, still sound)
                    self._rec.log(e="fin")
                self._rec.log(e="exit", exc=exc)
                _tl.cur = None
                _tl.actor = prev

        def do(self):
            if self._gates:
                self._gates.park(0, "pre")       # preempted between the loop's flag check and the first instruction of do()
            self.ncalls += 1
            out = self._script.pop(0) if self._script else (self._outcome() if self._outcome else "did")
            self._rec.log(e="do", out=out)
            if self._gates:
                self._gates.park(0, "do")
            elif self._real_sleep:
                time.sleep(self._real_sleep())
            if out == "nothing":
                self.nothing_happened()
            elif out == "backoff":
                self.backoff()
            elif out == "exc":
                raise ValueError("work function failed")
            elif out == "base":
                raise Boom()
            elif out in ("sstopF", "sstopT"):
                invoke(self, self._rec, 0, "stopTW" if out == "sstopT" else "stopFW")

        def interruptable_sleep(self, secs):
            self._rec.log(e="sleep", req=scaled(secs))
            g = self._gates
            if g:
                g.park(0, "sleep")
                if g.free:
                    return R.Runnable.interruptable_sleep(self, min(secs, 0.002))
                if g.mode != "block":
                    return R.Runnable.interruptable_sleep(self, 0)
                self._in_block = True            # waits for a wake(); the final stop of the driver sends one at the latest
                try:
                    return R.Runnable.interruptable_sleep(self, T_BLOCK)
                finally:
                    self._in_block = False
            return R.Runnable.interruptable_sleep(self, secs if self._real_sleep else 0)

        def done(self):
            self._rec.log(e="done")

        # -- any thread -------------------------------------------------------------------------------
        def wake(self):
            a = Recorder.actor()
            self._rec.log(e="wkE", a=a)
            if self._gates:
                self._gates.park(a, "wkE")
            try:
                R.Runnable.wake(self)
            finally:
                self._rec.log(e="wkX", a=a)
                if self._gates:
                    self._gates.park(a, "wkX")

        def wait(self, timeout=None):
            a = Recorder.actor()
            self._rec.log(e="wtE", a=a)
            if self._gates:
                self._gates.park(a, "wtE")
            return R.Runnable.wait(self, timeout=timeout)

    _K.update(HR=HR, Boom=Boom, Runnable=R.Runnable, R=R, LoopThread=LoopThread)
    return _K


def invoke(r, rec, a, kd, start_kw=None):
    """One controller call on the real object, logged as call ... ret (result: ok / false / exc)."""
    rec.log(e="call", a=a, kd=kd)
    res, et = "ok", ""
    try:
        if kd == "start":
            r.start(**(start_kw or getattr(r, "_start_kw", None) or {"sleep": NORM}))
        elif kd == "wake":
            r.wake()
        elif kd == "wait":
            res = "ok" if r.wait() else "false"
        elif kd == "waitT":
            res = "ok" if r.wait(timeout=0.05) else "false"
        else:
            f, w = KINDS[kd]
            K()["Runnable"].stop(r, forever=f, wait=w)
    except Exception as e:            # documented (RuntimeError, TimeoutError) or not: recorded, judged by TLC
        res, et = "exc", type(e).__name__
    rec.log(e="ret", a=a, res=res, et=et)
    return res


MUST_RETURN = ("stopTW", "stopFW", "wait")


def await_calls(th, rec, cur, limit=120.0):
    """Wait for a thread that issues controller calls.  cur = {'kd': call in progress or None, 'n0': do() count when it
    was entered}.  A waiting stop() / a wait() that is still in progress after the loop has entered do() STUCK_DO more
    times is not waited for any longer (counted, not timed: a stop request the loop heeds lets it enter do() once more
    at most): the caller goes on to the final stop, which ends the loop and with it the call.  Returns True when the
    thread has finished.  No verdict depends on when this function gives up."""
    t0 = time.time()
    while th.is_alive():
        th.join(0.002)
        kd = cur.get("kd")
        if kd in MUST_RETURN and rec.ndo - cur.get("n0", 0) >= STUCK_DO:
            cur["abort"] = True
            return False
        if time.time() - t0 > limit:      # last resort; the caller's final stop comes next, then it joins the thread
            cur["abort"] = True
            return False
    return True


def cfg_of(params, direct, sleep=NORM):
    mn, mx, (p, q) = params
    return {"mn": scaled(mn), "mx": scaled(mx), "p": p, "q": q, "norm": scaled(sleep), "direct": direct}


def sleeps_for(params):
    """The loop's ordinary sleep as a dimension: below min (the usual 1/1024), between min and max, above max."""
    mn, mx, _ = params
    lo, hi = min(mn, mx), max(mn, mx)
    between = (lo + hi) / 2 if lo < hi else (hi if hi > 0 else 0.5)
    above = 2 * hi if hi > 0 else 2.0
    return [NORM, between, above]


DEFAULT_PARAMS = (1.0 / 1024, 4.0 / 1024, (2, 1))


# ---------------------------------------------------------------------------------------------------
# family 1: backoff law, run(until=...) called directly
# ---------------------------------------------------------------------------------------------------
def run_backoff(seq, params, sleep=NORM):
    HR = K()["HR"]
    rec = Recorder(cfg_of(params, 1, sleep))
    r = HR(rec, params=params, script=seq)
    n = len(seq)

    def until():
        if r.ncalls >= n:
            rec.log(e="until")
            return True
        return False
    prev = getattr(_tl, "actor", None)
    try:
        r.run(until=until, sleep=sleep)
    except BaseException:            # an exception that escapes run(): already recorded by the exit event
        pass
    _tl.actor = prev
    return rec.ev


def _backoff_chunk(args):
    seqs, grid = args          # grid: (params, sleep) pairs
    return [run_backoff(list(s), p, sl) for s in seqs for p, sl in grid]


# ---------------------------------------------------------------------------------------------------
# family 2: gated schedules from Gen_Runnable
# ---------------------------------------------------------------------------------------------------
class Worker(threading.Thread):
    """A controller thread: executes the calls the driver hands it, one at a time."""

    def __init__(self, a, r, rec, gates):
        super().__init__(daemon=True, name="ctl%d" % a)
        self.a, self.r, self.rec, self.gates = a, r, rec, gates
        self.cmd = None
        self.cv = threading.Condition()
        self.quit = False

    def call(self, kd):
        with self.cv:
            self.cmd = kd
            self.cv.notify_all()

    def run(self):
        _tl.actor = self.a
        while True:
            with self.cv:
                while self.cmd is None and not self.quit:
                    self.cv.wait(0.5)
                if self.cmd is None:
                    return
                kd, self.cmd = self.cmd, None
            invoke(self.r, self.rec, self.a, kd)
            if self.gates:
                self.gates.set(self.a, "idle")


def _loop_thread(r):
    return getattr(r, "_Runnable__thread")


def loop_gone(lt):
    """The loop thread object is absent or has finished running.  Deliberately not join()/is_alive(): CPython 3.12 can
    raise 'release unlocked lock' when several threads join one thread at the same moment, and the controllers under
    test do join it."""
    return lt is None or (lt.ident is not None and lt.ident not in sys._current_frames())


def await_loop_gone(r, timeout=60.0):
    t0 = time.time()
    while not loop_gone(_loop_thread(r)):
        if time.time() - t0 > timeout:
            raise MachineryError("loop thread did not end after the final stop")
        time.sleep(0.0005)


def _idle_in_queue_get(th):
    """The thread is blocked inside queue.Queue.get() (a frame of queue.py's get below threading.py's Condition.wait)."""
    if th is None or th.ident is None:
        return False
    fr = sys._current_frames().get(th.ident)
    if fr is None or not (fr.f_code.co_filename.endswith("threading.py") and fr.f_code.co_name == "wait"):
        return False
    while fr is not None:
        if fr.f_code.co_name == "get" and fr.f_code.co_filename.endswith("queue.py"):
            return True
        fr = fr.f_back
    return False


def _in_threading(th):
    """The thread sits in a blocking primitive of threading.py (join / Event.wait): it touches no field of the
    Runnable before it is woken."""
    if th is None or th.ident is None:
        return False
    fr = sys._current_frames().get(th.ident)
    return (fr is not None and fr.f_code.co_filename.endswith("threading.py")
            and fr.f_code.co_name in ("wait", "_wait_for_tstate_lock"))


def run_gated(sched, prestarted, preboot=False):
    """Force one TLC-chosen schedule on the real class.  Returns (trace, diverged: str or '').
    prestarted: the schedule begins on a service whose first start() has returned; preboot: ... and whose loop thread
    is still held before the first statement of run()."""
    HR = K()["HR"]
    toks = sched["toks"]
    ctls = sorted(int(k) for k in sched["fin"] if k != "0")
    sleep = sched.get("sleep", scaled(NORM)) / S          # the loop's ordinary sleep is part of the schedule
    rec = Recorder(cfg_of(DEFAULT_PARAMS, 0, sleep))
    gates = Gates([0] + ctls + [3])
    gates.gate_ths = len(ctls) > 1
    if prestarted:
        gates.skip["thS"] = 1
        gates.skip["boot"] = 0 if preboot else 1
    script = [t["x"] for t in toks if t["k"] == "do"]
    r = HR(rec, params=DEFAULT_PARAMS, script=script, gates=gates)
    r._start_kw = {"sleep": sleep}
    workers = {c: Worker(c, r, rec, gates) for c in ctls}
    for w in workers.values():
        w.start()
    diverged = ""

    def matches(t, want):
        st = gates.status[t]
        lt = _loop_thread(r)
        if want in GATE_NAMES or want == "idle":
            return st == want
        if want == "dead":
            return t == 0 and st == "run" and loop_gone(lt)
        if want == "unborn":          # the thread object is assigned, Thread.start() has not launched it
            return t == 0 and st == "run" and lt is not None and lt.ident is None
        if want == "blocked":
            th = lt if t == 0 else workers[t]
            return st == "run" and _in_threading(th)
        raise MachineryError("unknown status %r" % want)

    def settle(want):
        t0 = time.time()
        with gates.cv:
            while True:
                bad = [(t, w, gates.status[int(t)]) for t, w in want.items() if not matches(int(t), w)]
                if not bad:
                    return ""
                # a thread held at a gate stays there until this driver releases it: held at another gate than the
                # predicted one is final (no clock involved); anything else is given time
                if any(st in GATE_NAMES for _, _, st in bad) or time.time() - t0 > SETTLE:
                    return "expected %s" % (bad,)
                gates.cv.wait(0.0005)

    try:
        if prestarted:
            gates.set(1, "run")          # before the call: the worker says "idle" when the call has returned
            workers[1].call("start")
        for tok in toks:
            if tok["k"] == "do":
                continue
            diverged = settle(tok["pre"])
            if diverged:
                break
            a = tok["a"]
            if tok["k"] == "rel":
                if gates.status[a] == "sleep":
                    gates.mode = tok["x"]
                gates.release(a)
            else:
                gates.set(a, "run")
                workers[a].call(tok["x"])
        if not diverged:
            diverged = settle(sched["fin"])
    finally:
        # end of the schedule: open every gate and let the threads run freely until every controller call has returned
        # or - a controller is waiting for a loop nobody stops, or for a loop that does not heed the stop - the loop has
        # evidently gone on (a few more do() calls, counted, not timed; the recorded order is what TLC judges).  Then
        # stop for good and wait for the loop thread (all logged like any other call).
        gates.open()
        n0, t0 = rec.ndo, time.time()
        while (any(gates.status[c] != "idle" for c in ctls) and rec.ndo - n0 < 3 and not r._in_block
               and time.time() - t0 < DRAIN):
            time.sleep(0.0005)
        _tl.actor = 3
        invoke(r, rec, 3, "stopTN")
        await_loop_gone(r)
        invoke(r, rec, 3, "wait")
        for w in workers.values():
            with w.cv:
                w.quit = True
                w.cv.notify_all()
        for w in workers.values():
            w.join(30)
            if w.is_alive():
                raise MachineryError("controller thread stuck after the schedule")
        _tl.actor = None
    return rec.ev, diverged


def _gated_chunk(args):
    scheds, prestarted, preboot = args
    return [run_gated(s, prestarted, preboot) for s in scheds]


# ---------------------------------------------------------------------------------------------------
# family 3: free-running threads, jittered controllers
# ---------------------------------------------------------------------------------------------------
def run_free(seed):
    HR = K()["HR"]
    rec = Recorder(cfg_of(DEFAULT_PARAMS, 0))
    rl, r1, r2 = (random.Random(seed * 7 + i) for i in range(3))
    outs = ["did"] * 8 + ["nothing"] * 3 + ["backoff"] * 2 + ["exc"] * 2 + ["base"] + ["sstopF"] * 2 + (["sstopT"] if seed % 5 == 0 else [])
    r = HR(rec, params=DEFAULT_PARAMS, outcome=lambda: rl.choice(outs), real_sleep=lambda: rl.choice((0, 0, 0.0003, 0.001)))

    def jitter(rng):
        d = rng.choice((0, 0, 0.0002, 0.001, 0.003))
        if d:
            time.sleep(d)

    cur = {}

    def owner():
        _tl.actor = 1
        invoke(r, rec, 1, "start")
        stopped = False
        for _ in range(r1.randint(2, 5)):
            if cur.get("abort"):
                break
            jitter(r1)
            if stopped:
                kd = r1.choice(["start", "start", "wait", "wake", "stopFW"])
            else:
                kd = r1.choice(["stopFW", "stopFW", "stopFN", "stopFN", "wake", "wake", "waitT", "stopTW", "stopTN"]
                               + (["start"] if r1.random() < 0.1 else []))
            cur["n0"], cur["kd"] = rec.ndo, kd
            res = invoke(r, rec, 1, kd)
            cur["kd"] = None
            if kd.startswith("stop"):
                stopped = True
            elif kd == "start" and res == "ok":
                stopped = False

    def second():
        _tl.actor = 2
        for _ in range(r2.randint(1, 4)):
            jitter(r2)
            invoke(r, rec, 2, r2.choice(["wake", "wake", "stopFN", "stopFW", "stopTN", "stopTW", "waitT", "wait"]))

    t1 = threading.Thread(target=owner, daemon=True)
    t2 = threading.Thread(target=second, daemon=True)
    t1.start()
    t2.start()
    await_calls(t1, rec, cur, limit=60.0)
    _tl.actor = 3
    invoke(r, rec, 3, "stopTN")
    await_loop_gone(r)
    t1.join(60)
    t2.join(60)
    if t1.is_alive() or t2.is_alive():
        raise MachineryError("free-running trace %d: a controller thread did not finish" % seed)
    invoke(r, rec, 3, "wait")
    _tl.actor = None
    return rec.ev


def _calls_chunk(seqs):
    return [run_calls(list(c)) for c in seqs]


def _free_chunk(seeds):
    return [run_free(s) for s in seeds]


# ---------------------------------------------------------------------------------------------------
# notifications
# ---------------------------------------------------------------------------------------------------
def run_notifier(hist, threaded):
    """Execute one Gen_Notifier history on a real NotificationManager; record what the handler saw."""
    import_repo()
    from cloudsync.notification import NotificationManager, Notification, NotificationType, SourceEnum
    lock = threading.Lock()
    ev = [{"e": "cfg", "threaded": 1 if threaded else 0}]
    fails = {}
    drained = threading.Event()
    sentinel = [0]

    def log(**e):
        with lock:
            ev.append(e)

    def handler(n):
        i = int(n.path)
        log(e="deliver", id=i, fail=fails.get(i, 0))
        if i == sentinel[0]:
            log(e="drain")
            drained.set()
        if fails.get(i, 0):
            raise ValueError("handler failed")

    nm = NotificationManager(evt_handler=handler)
    nid = [0]

    def notify(fail):
        nid[0] += 1
        fails[nid[0]] = fail
        log(e="notify", id=nid[0])
        nm.notify(Notification(SourceEnum.SYNC, NotificationType.TEMPORARY_ERROR, str(nid[0])))

    if not threaded:
        def body():
            for tok in hist:
                if tok["k"] == "n":
                    notify(tok["f"])
                elif tok["k"] == "d":
                    nm.do()
                else:
                    log(e="stopcall")
                    nm.stop(forever=bool(tok["f"]), wait=True)
                    log(e="stopret")
        th = threading.Thread(target=body, daemon=True)      # a do() that blocks on an empty queue must not hang the check
        th.start()
        t0, stuck = time.time(), 0
        while th.is_alive() and time.time() - t0 < 30:
            th.join(0.002)
            # blocked inside queue.get(): observed in threading.py's Condition.wait on consecutive looks, with no event
            # logged in between - an item the queue should still hold is gone
            n = len(ev)
            stuck = stuck + 1 if (_in_threading(th) and n == getattr(run_notifier, "_n", -1)) else 0
            run_notifier._n = n
            if stuck >= 25:
                break
        log(e="drain")
        return list(ev)
    stopped = False
    nm.start(sleep=NORM)
    for tok in hist:
        if tok["k"] == "n":
            notify(tok["f"])
        elif tok["k"] == "s":
            log(e="stopcall")
            nm.stop(forever=bool(tok["f"]), wait=True)
            log(e="stopret")
            stopped = True
    if not stopped:
        sentinel[0] = nid[0] + 1
        notify(0)
        t0 = time.time()
        lt = getattr(nm, "_Runnable__thread", None)
        qq = getattr(nm, "_NotificationManager__queue", None)
        idle = 0
        while not drained.wait(0.01):
            if loop_gone(lt):
                break
            # the queue is empty and its only consumer is waiting for the next item: everything raised has had its turn
            # (liveness detection only; if the private queue is not reachable the generous timeout below applies)
            idle = idle + 1 if (qq is not None and qq.qsize() == 0 and _idle_in_queue_get(lt)) else 0
            if idle >= 3:
                break
            if time.time() - t0 > 60:
                raise MachineryError("notification thread neither delivered the sentinel nor died within 60 s")
        if not drained.is_set():
            log(e="drain")
        log(e="stopcall")
        nm.stop(forever=True, wait=True)
        log(e="stopret")
    return ev


def _notifier_chunk(args):
    hists, threaded = args
    return [run_notifier(h, threaded) for h in hists]


# ---------------------------------------------------------------------------------------------------
# sequential calls (exemplars / replays): one controller, free-running loop
# ---------------------------------------------------------------------------------------------------
def run_calls(calls):
    HR = K()["HR"]
    rec = Recorder(cfg_of(DEFAULT_PARAMS, 0))
    r = HR(rec, params=DEFAULT_PARAMS, real_sleep=lambda: 0)
    cur = {}

    def body():
        _tl.actor = 1
        for kd in calls:
            if cur.get("abort"):
                break
            cur["n0"], cur["kd"] = rec.ndo, kd
            invoke(r, rec, 1, kd)
            cur["kd"] = None
    th = threading.Thread(target=body, daemon=True)      # a stop() that never returns must not hang the check
    th.start()
    await_calls(th, rec, cur)
    _tl.actor = 3
    invoke(r, rec, 3, "stopTN")
    await_loop_gone(r)
    th.join(60)
    if th.is_alive():
        raise MachineryError("call sequence %s: the controller thread did not finish after the final stop" % (calls,))
    invoke(r, rec, 3, "wait")
    _tl.actor = None
    return rec.ev


# ---------------------------------------------------------------------------------------------------
# TLC glue
# ---------------------------------------------------------------------------------------------------
ALLK = '{"start", "stopTW", "stopTN", "stopFW", "stopFN", "wake", "wait", "waitT"}'
PLAIN = ["TypeOK", "BackoffLaw", "ClearOnSuccess", "BackoffState", "NoDoAfterStopReturned", "StopCanReturn",
         "DoneExactlyOnceIfFinal", "NoRestartAfterFinalStop", "SurvivesAnythingSeen"]


def runnable_cfg(ctx, name, *, ctls, kinds, outs, calls, maxdo, until, pre, fixed, tail, sleeps=None):
    """Backoff parameters = DEFAULT_PARAMS in trace units; sleeps: the loop's ordinary sleep(s), default the usual one."""
    mn, mx, (p, q) = DEFAULT_PARAMS
    return tc.gen_cfg(ctx, name, "CONSTANTS\n Ctls = %s\n Owner = 1\n OpKinds = %s\n Outcomes = %s\n MaxCalls = %d\n"
                      " MaxDo = %d\n UseUntil = %s\n PreStarted = %s\n FixedStopOrder = %d\n ResetInRun = FALSE\n"
                      " BMin = %d\n BMax = %d\n BMulP = %d\n BMulQ = %d\n Sleeps = {%s}\n PauseMax = FALSE\n%s\nCHECK_DEADLOCK FALSE\n"
                      % (ctls, kinds, outs, calls, maxdo, "TRUE" if until else "FALSE", "TRUE" if pre else "FALSE", fixed,
                         scaled(mn), scaled(mx), p, q, ", ".join(str(scaled(x)) for x in (sleeps or [NORM])), tail))


def mc_tail(invs):
    return "SPECIFICATION Spec\n" + "\n".join("INVARIANT " + i for i in invs) + "\nPROPERTY SurvivesAnything"


def design_runs(ctx):
    """(what, callable) list; each callable runs one TLC job and returns None or raises MachineryError."""
    jobs = []

    def clean(module, cfg, what, workers):
        def f():
            ctx.model_check(module, cfg, what, workers=workers, timeout=3000)
        return f

    def expect(cfg, inv, what):
        def f():
            res = ctx.tlc("Runnable", cfg, what=what, workers=2, timeout=1200, count=False)
            if res.violated != [inv]:
                raise MachineryError("%s: expected TLC to violate exactly %s, got %s (rc=%s)\n%s"
                                     % (cfg, inv, res.violated, res.rc, res.tail(30)))
            ctx.extra.setdefault("expected_counterexamples", []).append(
                {"cfg": cfg, "invariant": inv, "trace_len": len([ln for ln in res.out.splitlines() if ln.startswith("State ")])})
        return f
    w = max(2, ctx.workers // 4)
    if ctx.tier == "quick":
        jobs += [("MC_Runnable", clean("Runnable", "MC_Runnable.cfg", "design, code as found: 1 controller + loop, 3 calls, 2 free do outcomes, until", w)),
                 ("MC_Runnable2", clean("Runnable", "MC_Runnable2.cfg", "design, code as found: 2 controllers on a running service, 2 calls", w)),
                 ("MC_RunnableFixed", clean("Runnable", "MC_RunnableFixed.cfg", "design, repaired stop order: 2 controllers, both windows closed", w))]
    else:
        big1 = dict(ctls="{1}", kinds=ALLK, outs='{"did", "nothing", "backoff", "exc", "base", "sstopF", "sstopT"}', calls=4, maxdo=2, until=True, pre=False)
        big2 = dict(ctls="{1, 2}", kinds=ALLK, outs='{"did", "exc", "sstopF"}', calls=2, maxdo=1, until=False, pre=True)
        big3 = dict(ctls="{1, 2}", kinds='{"start", "stopTW", "stopFW", "stopTN", "wake"}', outs='{"did"}', calls=3, maxdo=0, until=False, pre=True)
        for nm, c in (("T1", big1), ("T2", big2), ("T3", big3)):
            jobs.append(("MC_%s_found" % nm, clean("Runnable", runnable_cfg(ctx, "MC_%s_found.cfg" % nm, fixed=0, tail=mc_tail(PLAIN), **c),
                                                   "design, code as found (thorough %s)" % nm, w)))
            jobs.append(("MC_%s_fixed" % nm, clean("Runnable", runnable_cfg(ctx, "MC_%s_fixed.cfg" % nm, fixed=2,
                                                                            tail=mc_tail(PLAIN + ["NoStopOrderWindow", "NoFinalRevoked"]), **c),
                                                   "design, repaired stop order (thorough %s)" % nm, w)))
        jobs.append(("MC_RunnableFixed1", clean("Runnable", "MC_RunnableFixed1.cfg", "design, repaired stop order: 1 controller + loop", w)))
    jobs += [("MC_RunnableWindow", expect("MC_RunnableWindow.cfg", "NoStopOrderWindow", "expected counterexample: loop exits between wake() and the final-stop flag")),
             ("MC_RunnableRevoked", expect("MC_RunnableRevoked.cfg", "NoFinalRevoked", "expected counterexample: a non-final stop revokes a final stop")),
             ("MC_RunnableFixedUncond", expect("MC_RunnableFixedUncond.cfg", "NoFinalRevoked", "expected counterexample: unconditional assignment moved to the front still revokes")),
             ("MC_RunnableBackoff", clean("Runnable", "MC_RunnableBackoff.cfg", "design: pause after an iteration vs the law, loop sleep below min / between / above max", 2)),
             ("MC_RunnablePauseMax", expect("MC_RunnablePauseMax.cfg", "BackoffLaw", "expected counterexample: pause = max(sleep, in_backoff) waits a whole loop sleep instead of the first backoff steps")),
             ("MC_RunnableResetInRun", expect("MC_RunnableResetInRun.cfg", "StopCanReturn", "expected counterexample: stop request cleared by the loop thread at the head of run(): a stop() landing before the loop thread's first statement is lost")),
             ("MC_Notifier", clean("Notifier", "MC_Notifier.cfg", "design: notification queue, thread mode", 2)),
             ("MC_NotifierDirect", clean("Notifier", "MC_NotifierDirect.cfg", "design: notification queue, direct do()", 2))]
    return jobs


def gen_schedules(ctx, name, simulate=None, preboot=False, fixed=0, **c):
    maxtok = c.pop("maxtok")
    cfg = runnable_cfg(ctx, "Gen_%s.cfg" % name, fixed=fixed, until=False,
                       tail=" MaxTok = %d\n PreBoot = %s\nSPECIFICATION GenSpec\nINVARIANT Emit"
                       % (maxtok, "TRUE" if preboot else "FALSE"), **c)
    kw = {}
    if simulate:
        kw = dict(simulate="num=%d" % simulate, depth=400, extra=["-seed", str(ctx.seed + 1)])
    res = ctx.tlc("Gen_Runnable", cfg, what="generate gated schedules %s%s" % (name, " (simulation)" if simulate else ""),
                  workers=1, timeout=3000, **kw)
    if res.error or res.violated or res.rc != 0:
        raise MachineryError("schedule generator %s failed\n%s" % (name, res.tail(40)))
    seen, out = set(), []
    for p in res.printed():
        if p.startswith("{") and p not in seen:
            seen.add(p)
            out.append(json.loads(p))
    if not out:
        raise MachineryError("schedule generator %s produced nothing" % name)
    return out


def probe_variant():
    """Which stop() ordering does the working tree have?  Only selects the model variant the conformance search uses
    (a wrong guess shows up as non-conformance, never as a verdict)."""
    HR = K()["HR"]
    try:
        seen = {}

        class P(HR):
            def wake(self):
                seen.setdefault("sd", getattr(self, "_Runnable__shutdown"))

        r = P(Recorder({}))
        K()["Runnable"].stop(r, forever=True, wait=False)
        if not seen.get("sd"):
            return 0
        K()["Runnable"].stop(r, forever=False, wait=False)
        return 2 if getattr(r, "_Runnable__shutdown") else 1
    except Exception:
        return 0


def split_clause(c):
    base, _, tag = c.partition("@")
    return base, tag


def judge(ctx, traces, cases, family, what):
    """Property clauses on recorded traces, evaluated by TLC (Trace_Runnable)."""
    if not traces:
        return 0
    viols, _ = tc.validate(ctx, "Trace_Runnable", "Trace_Runnable.cfg", traces, what, min_batch=12000)
    seen = set()
    for ti, line, clause in sorted(viols):
        if (ti, clause) in seen:
            continue
        seen.add((ti, clause))
        base, tag = split_clause(clause)
        ev = traces[ti][line - 1]
        ctx.report({"clause": base, "window": tag, "family": family if isinstance(family, str) else family[ti]},
                   {"line": line, "event": ev, "trace": traces[ti][max(0, line - 12):line + 2], "case": cases[ti]},
                   replay=cases[ti])
    return len(seen)


def conform(ctx, traces, cases, variant, what):
    """Is every trace a behaviour of Runnable.tla (some placement of the silent steps)?  Non-conformance is evidence."""
    if not traces:
        return
    cfg = tc.gen_cfg(ctx, "Trace_RunnableConc_%d.cfg" % variant,
                     open(os.path.join(os.path.dirname(tc.__file__), "..", "spec", "Trace_RunnableConc.cfg")).read()
                     .replace("FixedStopOrder = 0", "FixedStopOrder = %d" % variant))
    viols, done = tc.validate(ctx, "Trace_RunnableConc", cfg, traces, what, dfs=True, must_complete=False,
                              min_batch=400, timeout=3000)
    ok = {ti for ti, _, c in viols if c == "Completed"}
    ctx.extra["conformance_checked"] = ctx.extra.get("conformance_checked", 0) + len(traces)
    ctx.extra["conformance_explained"] = ctx.extra.get("conformance_explained", 0) + len(ok)
    for ti in range(len(traces)):
        if ti not in ok:
            ctx.nonconf({"what": what + ": recorded trace is not a behaviour of Runnable.tla (FixedStopOrder=%d)" % variant,
                         "case": cases[ti], "trace_head": traces[ti][:40]})


def judge_notifier(ctx, traces, cases, what):
    if not traces:
        return
    viols, _ = tc.validate(ctx, "Trace_Notifier", "Trace_Notifier.cfg", traces, what, min_batch=12000)
    seen = set()
    for ti, line, clause in sorted(viols):
        if (ti, clause) in seen:
            continue
        seen.add((ti, clause))
        ctx.report({"clause": clause, "window": "", "family": "notifier"},
                   {"line": line, "trace": traces[ti], "case": cases[ti]}, replay=cases[ti])


def pmap(pool, f, jobs, timeout=2400):
    """pool.map that cannot hang the check."""
    import multiprocessing
    try:
        return pool.map_async(f, jobs).get(timeout)
    except multiprocessing.TimeoutError:
        raise MachineryError("worker pool did not finish %s within %d s" % (getattr(f, "__name__", f), timeout))


def chunks(xs, n):
    n = max(1, n)
    return [xs[i:i + n] for i in range(0, len(xs), n)]


def exec_case(case):
    """Re-execute one case (exemplar / replay).  Returns (kind, trace)."""
    fam = case["family"]
    if fam == "backoff":
        return "runnable", run_backoff(list(case["seq"]), (case["params"][0], case["params"][1], tuple(case["params"][2])),
                                       case.get("sleep", NORM))
    if fam == "gated":
        tr, _ = run_gated(case["schedule"], case.get("prestarted", False), case.get("preboot", False))
        return "runnable", tr
    if fam == "calls":
        return "runnable", run_calls(case["calls"])
    if fam == "free":
        return "runnable", run_free(case["seed"])
    if fam == "notifier":
        return "notifier", run_notifier(case["history"], case["threaded"])
    raise MachineryError("unknown case family %r" % fam)


# ---------------------------------------------------------------------------------------------------
def _run(ctx, pool):
    from concurrent.futures import ThreadPoolExecutor
    quick = ctx.tier == "quick"
    ctx.extra["rule"] = (
        "backoff: every sequence of do() outcomes {did, nothing, backoff request, Exception, BaseException} up to length "
        "%d x %d parameter triples with the usual loop sleep (1/1024 s), and up to one less with a loop sleep between min "
        "and max and above max of the triple, run(until=..., sleep=...) on the real class, non-trivial = contains a failure; "
        "gated: schedules enumerated by TLC from Gen_Runnable (release/call tokens at the gates do, sleep, wake entry, wake "
        "exit, wait entry, and in the start-up of the loop thread: entry of Thread.start() inside start(), new thread "
        "bootstrapped but run() not entered), non-trivial = a controller token is placed while the loop thread exists; "
        "calls: every sequence of <= %d calls of one controller over {start, stop(T,wait), stop(F,wait), stop(T,nowait), wait} "
        "against a freely running loop, non-trivial = something is called after a start(); "
        "free: real threads with seeded jitter, non-trivial = a controller call is logged while the loop is between a do() "
        "and its finally block; notifier: every history of Gen_Notifier, non-trivial = >= 2 notifications and a handler "
        "failure or a stop; distinct = distinct case (sequence x parameters / schedule / recorded event order / history)"
        % (4 if quick else 6, len(GRID), 3 if quick else 4))
    ctx.assume(
        "backoff law checked where the formula min(max, min*mult^(k-1)) is well defined: min >= 0, max >= 0, mult >= 1 "
        "(for mult < 1 the code keeps max(in_backoff*mult, min) = min, the formula would shrink); a wait of 0 (min = 0 or "
        "max = 0) is read as 'no waiting', i.e. the loop's ordinary sleep; parameters are dyadic rationals so that every "
        "requested sleep is an exact integer in units of 1/65536 s (the class defaults 0.01/1.0/2.0 are not representable "
        "and are not in the grid)",
        "'stop() for a started service' = the stop() was entered after a start() had returned, with no other stop(), no "
        "start() and no end of the loop (until / finally block) logged in between; overlapping start()/stop() calls and two "
        "concurrent start() calls are not judged (the model shows done() can run twice there)",
        "observation points: entry of the overridable do / interruptable_sleep / wake / wait / done / run, call and return "
        "of the controller calls, return of run(), the until predicate, the debug log line at the head of run()'s finally "
        "block (cloudsync.runnable.log replaced by a proxy from /verif), and start() / run() of the thread object start() "
        "creates (the name `threading` inside cloudsync.runnable replaced by a proxy from /verif whose Thread is a "
        "subclass of threading.Thread); order = one recorder lock; verdict clauses are evaluated by TLC on that order "
        "only, never on elapsed time",
        "'stop() never returns' is judged in a bounded form on the recorded order (clause NoDoAfterStopReturned, window "
        "StopCannotReturn): once a judged stop() has entered its wait() or has returned, and nothing has started the "
        "service again, the loop may enter the one do() it was about to call, a second do() means the request is lost "
        "on the loop; the driver never waits for such a stop() by the clock: it counts do() calls and then ends the "
        "service with a final stop of its own (which the trace shows like any other call)",
        "thread interleavings of the free-running family are whatever the OS produced in this run; gated schedules are "
        "forced by the driver (a thread predicted to block is observed inside threading.py before the next release)",
        "__stopped / the `stopped` property and `started` are not modelled (no clause depends on them); run(timeout=...) "
        "is not exercised")
    K()
    jobs = design_runs(ctx)
    if os.environ.get("C18_SKIP_DESIGN"):          # development aid (mutation runs): the design runs do not depend on /repo
        jobs = []
        ctx.extra["design_runs_skipped"] = True
    ex = ThreadPoolExecutor(max_workers=3 if quick else 4)
    futs = [(n, ex.submit(f)) for n, f in jobs]
    variant = probe_variant()
    ctx.extra["stop_order_variant_in_tree"] = variant
    nproc = pool._processes

    # ---- exemplars of listed findings ------------------------------------------------------------
    A = {"tr": [], "cases": [], "fam": [], "conf": []}        # every Runnable trace of this run; judged in one batch

    def add(trs, cs, family, conf=True):
        base = len(A["tr"])
        A["tr"] += trs
        A["cases"] += cs
        A["fam"] += [family] * len(trs)
        if conf is True:
            A["conf"] += range(base, base + len(trs))
        elif conf:
            A["conf"] += [base + i for i in conf]
    NT, NC = [], []
    for f in ctx.findings:
        if f.get("exemplar"):
            kind, tr = exec_case(f["exemplar"])
            if kind == "runnable":
                add([tr], [f["exemplar"]], "exemplar")
            else:
                NT.append(tr)
                NC.append(f["exemplar"])

    # ---- backoff law -----------------------------------------------------------------------------
    # every outcome sequence up to maxlen with the usual loop sleep (below every min > 0); every sequence up to
    # maxlen - 1 with a loop sleep between min and max, and above max, of each parameter triple
    maxlen = 4 if quick else 6
    seqs = [s for n in range(1, maxlen + 1) for s in itertools.product(OUTS5, repeat=n)]
    short = [s for s in seqs if len(s) < maxlen]
    g0 = [(p, NORM) for p in GRID]
    g1 = [(p, sl) for p in GRID for sl in sleeps_for(p)[1:]]
    bjobs = [(c, g0) for c in chunks(seqs, len(seqs) // (4 * nproc) + 1)] + \
            [(c, g1) for c in chunks(short, len(short) // (4 * nproc) + 1)]
    out = pmap(pool, _backoff_chunk, bjobs)
    traces = [t for ch in out for t in ch]
    cases = [{"family": "backoff", "seq": list(s), "params": [p[0], p[1], list(p[2])], "sleep": sl}
             for c, g in bjobs for s in c for p, sl in g]
    ctx.extra["backoff_loop_sleeps"] = {"usual": len(seqs) * len(g0), "between_min_max_and_above_max": len(short) * len(g1)}
    ctx.count(evaluations=len(traces), nontrivial=sum(1 for c in cases if set(c["seq"]) & {"backoff", "exc", "base"}))
    ctx.extra["backoff_traces"] = len(traces)
    ctx.sample({"backoff": cases[len(cases) // 3], "trace": traces[len(cases) // 3]})
    rng = random.Random(ctx.seed)
    add(traces, cases, "backoff", conf=sorted(rng.sample(range(len(traces)), min(len(traces), 240 if quick else 2000))))

    # ---- gated schedules -------------------------------------------------------------------------
    # name -> (generator arguments, the schedule starts on a started service, ... whose loop thread is held at "boot").
    # The generator predicts with the stop() ordering probed in the working tree (a wrong guess shows up as a schedule
    # that cannot be forced = non-conformance in the evidence, never as a verdict).
    K7 = '{"start", "stopTW", "stopTN", "stopFW", "stopFN", "wake", "wait"}'
    specs = [
        ("GA", dict(ctls="{1}", kinds='{"stopTW", "stopTN", "stopFW", "wake", "wait"}', outs='{"did", "exc", "sstopF"}',
                    calls=2, maxdo=1, pre=True, maxtok=7 if quick else 8, fixed=variant), True, False),
        ("GC", dict(ctls="{1}", kinds='{"start", "stopTW", "stopFW", "stopTN", "wait"}', outs='{"did"}',
                    calls=3 if quick else 4, maxdo=1, pre=False, maxtok=8 if quick else 10, fixed=variant), False, False),
        ("GB", dict(ctls="{1, 2}", kinds='{"start", "stopTW", "stopTN", "stopFW", "wake", "wait"}', outs='{"did", "exc", "sstopF"}',
                    calls=2, maxdo=2, pre=True, maxtok=7, simulate=120 if quick else None, fixed=variant), True, False),
        # start-up window of the loop thread: the first start() has returned, the loop thread has not executed a
        # statement of run(); every placement of <= 2 (3) calls of one controller before / after the driver lets it run
        ("GW", dict(ctls="{1}", kinds=K7, outs='{"did"}', calls=2 if quick else 3, maxdo=1, pre=True, preboot=True,
                    maxtok=7 if quick else 8, fixed=variant), True, True),
        # two controllers from a service that was never started: the starter is also held inside start() at the entry
        # of Thread.start() (thread object assigned, not running), the other controller's calls land before / in /
        # after both windows
        ("GS", dict(ctls="{1, 2}", kinds=K7, outs='{"did"}', calls=2, maxdo=1, pre=False, maxtok=7 if quick else 8,
                    fixed=variant), False, False),
    ]
    # the loop's ordinary sleep as a dimension, through start(sleep=...): every sequence of 3 (4) do() outcomes on a gated
    # loop thread, sleep below min / between min and max / above max of DEFAULT_PARAMS
    specs.append(("GP", dict(ctls="{1}", kinds="{}", outs='{"did", "nothing", "backoff", "exc", "base"}', calls=0,
                             maxdo=3 if quick else 4, pre=True, maxtok=11 if quick else 15, fixed=variant,
                             sleeps=[1.0 / 4096, 2.0 / 1024, 16.0 / 1024]), True, False))
    if not quick:
        # both controllers act while the loop thread of a started service is still held before run()
        specs.append(("GX", dict(ctls="{1, 2}", kinds='{"stopTW", "stopFW", "stopFN", "wake", "wait"}', outs='{"did"}', calls=2,
                                 maxdo=1, pre=True, preboot=True, maxtok=7, fixed=variant), True, True))
    with ThreadPoolExecutor(max_workers=3) as gex:
        gfut = [(n, gex.submit(gen_schedules, ctx, n, **kw), pre, pb) for n, kw, pre, pb in specs]
        fam = [(n, fu.result(), pre, pb) for n, fu, pre, pb in gfut]
    ctx.extra["gated_families"] = {n: len(sc) for n, sc, _, _ in fam}
    ctx.extra["gated_exhaustive"] = [n for n, kw, _, _ in specs if not kw.get("simulate")]

    def in_startup(sc):          # a controller acts while the loop thread is created / bootstrapped but has not run
        return any(t["k"] in ("call", "rel") and t["a"] != 0 and t["pre"].get("0") in ("boot", "unborn") for t in sc["toks"])
    ctx.extra["gated_in_startup_window"] = {n: sum(1 for x in sc if in_startup(x)) for n, sc, _, _ in fam}
    gjobs, gmeta = [], []
    for name, scheds, pre, pb in fam:
        for ci, c in enumerate(chunks(scheds, len(scheds) // (3 * nproc) + 1)):
            gjobs.append((c, pre, pb))
            gmeta.append((name, pre, pb, c))
    res = pmap(pool, _gated_chunk, gjobs)
    gtr, gcases, ndiv = [], [], 0
    for (name, pre, pb, c), ch in zip(gmeta, res):
        for sc, (tr, div) in zip(c, ch):
            case = {"family": "gated", "schedule": sc, "prestarted": pre, "preboot": pb, "gen": name}
            gtr.append(tr)
            gcases.append(case)
            if div:
                ndiv += 1
                ctx.nonconf({"what": "gated schedule could not be forced on the real class (threads did not reach the "
                                     "status the model predicts)", "diverged": div, "case": case})
    ctx.extra["gated_diverged"] = ndiv

    def gated_nontrivial(s):
        return any(t["k"] in ("call", "rel") and t["a"] != 0 and t["pre"].get("0") != "dead" for t in s["toks"])
    ctx.count(evaluations=len(gtr), nontrivial=len({json.dumps(c["schedule"], sort_keys=True) for c in gcases
                                                    if gated_nontrivial(c["schedule"])}))
    ctx.sample({"gated": gcases[len(gcases) // 2], "trace": gtr[len(gcases) // 2]})
    add(gtr, gcases, "gated")

    # ---- sequential call sequences (no gate holds; the loop runs freely) ---------------------------------------
    ckinds = ["start", "stopTW", "stopFW", "stopTN", "wait"]

    def returns(c):          # wait() without timeout on a service nobody stops would never return
        stopped = True
        for kd in c:
            if kd == "start":
                stopped = False
            elif kd.startswith("stop"):
                stopped = True
            elif not stopped:
                return False
        return True
    cseqs = [c for n in range(1, (3 if quick else 4) + 1) for c in itertools.product(ckinds, repeat=n) if returns(c)]
    res = pmap(pool, _calls_chunk, chunks(cseqs, len(cseqs) // (3 * nproc) + 1))
    ctr = [t for ch in res for t in ch]
    ccases = [{"family": "calls", "calls": list(c)} for c in cseqs]
    ctx.count(evaluations=len(ctr), nontrivial=sum(1 for c in cseqs if "start" in c and c.index("start") < len(c) - 1))
    ctx.extra["call_sequences"] = len(cseqs)
    add(ctr, ccases, "calls")

    # ---- free-running threads --------------------------------------------------------------------
    nfree = 240 if quick else 2400
    seeds = [ctx.seed * 100000 + i for i in range(nfree)]
    res = pmap(pool, _free_chunk, chunks(seeds, nfree // (2 * nproc) + 1))
    ftr = [t for ch in res for t in ch]
    fcases = [{"family": "free", "seed": s} for s in seeds]

    def overlap(tr):
        live = False
        for e in tr:
            if e["e"] == "do":
                live = True
            elif e["e"] == "fin":
                live = False
            elif e["e"] == "call" and e["a"] in (1, 2) and live:
                return True
        return False
    ctx.count(evaluations=len(ftr), nontrivial=len({json.dumps([(e["e"], e.get("a"), e.get("kd"), e.get("out"), e.get("res"))
                                                                for e in t]) for t in ftr if overlap(t)}))
    ctx.extra["free_traces"] = len(ftr)
    ctx.extra["free_events_mean"] = round(sum(len(t) for t in ftr) / max(1, len(ftr)), 1)
    ctx.sample({"free_seed": seeds[0], "trace_head": ftr[0][:30]})
    add(ftr, fcases, "free")
    judge(ctx, A["tr"], A["cases"], A["fam"], "all recorded Runnable traces (exemplars, backoff, gated, free)")
    conform(ctx, [A["tr"][i] for i in A["conf"]], [A["cases"][i] for i in A["conf"]], variant,
            "backoff slice + gated + free traces")

    # ---- notifications ---------------------------------------------------------------------------
    for threaded, maxn in ((False, 4 if quick else 5), (True, 5)):
        cfg = tc.gen_cfg(ctx, "Gen_Notifier_%s.cfg" % threaded,
                         "CONSTANTS\n MaxN = %d\n Threaded = %s\nSPECIFICATION GNSpec\nINVARIANT Emit\nCHECK_DEADLOCK FALSE\n"
                         % (maxn, "TRUE" if threaded else "FALSE"))
        res = ctx.tlc("Gen_Notifier", cfg, what="generate notification histories (threaded=%s, <= %d)" % (threaded, maxn),
                      workers=1, timeout=3000)
        if not res.ok:
            raise MachineryError("notification generator failed\n" + res.tail(40))
        hists = tc.parse_histories(res)
        if len(hists) < 200:
            raise MachineryError("notification generator produced only %d histories" % len(hists))
        out = pmap(pool, _notifier_chunk, [(c, threaded) for c in chunks(hists, len(hists) // (3 * nproc) + 1)])
        ntr = [t for ch in out for t in ch]
        ncases = [{"family": "notifier", "history": h, "threaded": threaded} for h in hists]
        ctx.count(evaluations=len(ntr),
                  nontrivial=sum(1 for h in hists if sum(1 for t in h if t["k"] == "n") >= 2
                                 and any((t["k"] == "n" and t["f"]) or t["k"] == "s" for t in h)))
        ctx.extra["notifier_histories_%s" % ("threaded" if threaded else "direct")] = len(hists)
        ctx.sample({"notifier": ncases[len(ncases) // 2], "trace": ntr[len(ncases) // 2]})
        NT += ntr
        NC += ncases
    judge_notifier(ctx, NT, NC, "notification histories (direct and threaded)")
    ctx.cov["exhaustive"] = True

    # ---- design-level results --------------------------------------------------------------------
    errs = []
    for n, fu in futs:
        try:
            fu.result()
        except MachineryError as e:
            errs.append("%s: %s" % (n, e))
    ex.shutdown()
    if errs:
        raise MachineryError("design-level runs failed:\n" + "\n".join(errs))


def run(ctx):
    import multiprocessing
    import gc
    K()                                        # import the working tree once, before forking
    # not ctx.pool(): the gated schedules wait on real joins (start()'s join(timeout=1), block-mode sleeps), so this
    # family wants more processes than cores; like ctx.pool() the parent's heap is frozen before the fork
    gc.collect()
    gc.freeze()
    pool = multiprocessing.get_context("fork").Pool(min(32, 2 * ctx.workers))
    try:
        _run(ctx, pool)
    finally:
        pool.terminate()


def replay(ctx, rep):
    case = rep["case"]
    kind, tr = exec_case(case)
    if kind == "runnable":
        judge(ctx, [tr], [case], case["family"], "replay")
        conform(ctx, [tr], [case], probe_variant(), "replay")
    else:
        judge_notifier(ctx, [tr], [case], "replay")
    ctx.count(evaluations=1, nontrivial=1)
    ctx.sample({"case": case, "trace": tr[:60]})
    if case["family"] == "free":
        ctx.assume("replay of a free-running case re-runs the same seed; the OS may interleave differently")


if __name__ == "__main__":
    main("C18", run, replay)

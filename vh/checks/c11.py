"""
C11 - sync-state index integrity: id and path lookups always agree with entries.

Invariants of StateInv.tla evaluated by TLC on the observed table of the REAL SyncState:
  FoundByOid / FoundByPath           every live entry is found under its current id and its current path on each side
  NoStaleOidSlot / NoStalePathSlot   no id or (path, id) slot leads to an entry that no longer carries it
  OneOwnerPerOid                     at most one live entry owns an id per side
  PendingExact                       the pending set is exactly the entries with a change flag and an id
  NoException                        the table operations do not fail on event tuples of the declared types
(a) state-level family (Gen_State.tla): every sequence of raw event tuples (type, id, path, hash, exists, prior id) up to a bound
    and discards, for id-style and path-style sides - duplicated, stale and out-of-order tuples are simply members of the
    enumeration - applied to SyncState.update() under its lock, table observed after every call;
(b) every state reached by the full engine: system families with the table observed after every engine step.
"""
import json
import multiprocessing

from ..core import MachineryError
from ..runner import main
from .. import syscheck as sc
from . import c08
from .. import sysfam, statedrv
from .. import tracecheck as tc

CLAUSES = {"FoundByOid", "FoundByPath", "NoStaleOidSlot", "NoStalePathSlot", "OneOwnerPerOid", "PendingExact", "NoException"}
GAPS = ["I", "I1", "IS", "ISS", "Q", "X", "IX", "R"]


def gen_state(ctx, maxlen, sides, path_style, simulate=None, ci=False):
    cfg = tc.gen_cfg(ctx, "Gen_State_%d_%s_%s.cfg" % (maxlen, path_style, ci),
                     "CONSTANTS\n MaxLen = %d\n GSides = {%s}\n OidIsPath = %s\n CaseVariants = %s\nSPECIFICATION Spec\nINVARIANT Emit\n"
                     "CHECK_DEADLOCK FALSE\n"
                     % (maxlen, ", ".join(str(s) for s in sides), "TRUE" if path_style else "FALSE", "TRUE" if ci else "FALSE"))
    if simulate:
        res = ctx.tlc("Gen_State", cfg, what="simulate state-level sequences", workers=1, count=False,
                      simulate="num=%d" % simulate[0], depth=maxlen + 1, extra=["-seed", str(simulate[1])])
        if res.error:
            raise MachineryError("Gen_State failed\n" + res.tail())
    else:
        res = ctx.tlc("Gen_State", cfg, what="enumerate state-level sequences", workers=1)
        if not res.ok:
            raise MachineryError("Gen_State failed\n" + res.tail())
    seen, out = set(), []
    for h in tc.parse_histories(res):
        k = json.dumps(h)
        if k not in seen:
            seen.add(k)
            out.append({"path_style": path_style, "ops": h, "ci": ci})
    return out


def state_tags(case):
    """strata of the state-level family (computed from the call sequence)"""
    tags = set()
    ops = [o for o in case["ops"] if o["op"] == "update"]
    fold = (lambda p: tuple({7: 3, 5: 1}.get(n, n) for n in p)) if case.get("ci") else tuple   # case-insensitive side: D = d
    paths = [fold(o["path"]) for o in ops if o["path"]]
    for a in paths:
        for b in paths:
            if a != b and b[:len(a)] == a:
                tags.add("NESTED_PATHS")
    if case["path_style"]:
        for o in ops:
            if o["prior"] and o["path"] and fold(o["path"])[:len(o["prior"])] == fold(o["prior"]) and fold(o["prior"]) != fold(o["path"]):
                tags.add("SELF_NESTING")        # a folder's new path lies under its old one
            if o["prior"]:
                tags.add("PRIOR")
    if any(o["otype"] == 1 for o in ops):
        tags.add("DIR")
    if any(not o["path"] for o in ops):
        tags.add("NOPATH")
    if any(o["op"] == "discard" for o in case["ops"]):
        tags.add("DISCARD")
    return sorted(tags)


def run_state_family(ctx, cases, what):
    res = ctx.pool().map(statedrv.execute, cases, chunksize=max(1, min(100, len(cases) // (ctx.workers * 4))))
    traces = []
    for c, (tr, err) in zip(cases, res):
        if err:
            raise MachineryError("state driver failed on %r:\n%s" % (c, err))
        traces.append(tr)
    viols, done, nonconf = tc.validate(ctx, "Trace_Sys", "Trace_Sys.cfg", traces, what, extended=True, min_batch=3000)
    for ti, line, clause, rest in viols:
        if clause not in CLAUSES:
            continue
        ev = traces[ti][line - 1]
        ctx.report({"clause": clause, "family": "state", "path_style": cases[ti]["path_style"], "tags": state_tags(cases[ti]),
                    "exc": ev.get("exc", "")},
                   {"ops": cases[ti]["ops"][:line - 1], "line": line}, replay={"state_case": cases[ti]})
    ctx.count(evaluations=len(cases), nontrivial=len({json.dumps(c["ops"]) for c in cases if len(c["ops"]) > 1}))
    ctx.sample({"state_ops": cases[len(cases) // 2]["ops"]})


def run(ctx):
    ctx.extra["rule"] = ("(a) every sequence of <= n raw event tuples / discards over 2 ids x 3 paths x 3 hashes x exists x prior id "
                         "(Gen_State.tla; exhaustive for small n, -simulate beyond) on a real SyncState, id-style and path-style; "
                         "(b) system families with the table observed after every engine step; non-trivial = more than one call / at "
                         "least one engine write")
    ctx.assume("the table is observed through SyncState's private indexes (_oids, _paths, _changeset_storage, _dirtyset) and storage.read_all",
               "MockProvider / MockStorage as collaborators; virtual clock")
    quick = ctx.tier == "quick"
    ex = [f["exemplar"]["state_case"] for f in ctx.findings if isinstance(f.get("exemplar"), dict) and "state_case" in f["exemplar"]]
    if ex:
        run_state_family(ctx, ex, "exemplars of listed findings")
    for ps in (False, True):
        cases = gen_state(ctx, 2, [0], ps)
        cases, _ = sc.slice_cases(cases, 6000 if quick else None, ctx.seed + 1)
        run_state_family(ctx, cases, "state-level sequences len 2 path_style=%s" % ps)
        # the on-demand engine's table class on the same sequences (it overrides the pending-set accessor)
        sm, _ = sc.slice_cases(cases, 1500 if quick else None, key="statesmart")
        run_state_family(ctx, [dict(c, smart=True) for c in sm], "state-level sequences len 2 SmartSyncState path_style=%s" % ps)
        # case-insensitive side with names that differ only by case (case-only renames, stale spellings)
        cases = gen_state(ctx, 2, [0], ps, ci=True)
        cases, _ = sc.slice_cases(cases, 3000 if quick else None, key="stateci")
        run_state_family(ctx, cases, "state-level sequences len 2 case-insensitive path_style=%s" % ps)
        sim = gen_state(ctx, 5 if quick else 7, [0, 1], ps, simulate=(8 if quick else 60, ctx.seed + 3))
        # the simulated (seed-dependent) family stays out of the stratum of the listed kids-update defects (nested paths:
        # one id seen at P and below P); that stratum is covered by the exhaustive length-2 family, whose verdict cannot depend
        # on the seed
        sim = [c for c in sim if "NESTED_PATHS" not in state_tags(c)]
        sim, _ = sc.slice_cases(sim, 3000 if quick else 15000, ctx.seed + 2)
        run_state_family(ctx, sim, "state-level sequences simulated path_style=%s" % ps)
    flavors = ["oid/oid", "path/oidf"] if quick else ["oid/oid", "path/oidf", "oidf/path", "path/path"]
    fams = [("st_two2", "std", [1, 2], 2, None, 500 if quick else None), ("st_sim4", "std", [1, 2], 4, "sim", 300 if quick else 5000),
            ("st_case2", "case", [1], 2, None, 300 if quick else None)]
    for name, uni, sides, nops, mode, limit in fams:
        if mode == "sim":
            cases = sc.generate(ctx, name, sides, nops, GAPS, uni, filt="clean", simulate=(30, ctx.seed + 13))
        else:
            cases = sc.generate(ctx, name, sides, nops, GAPS, uni)
        cases, _ = sc.slice_cases(cases, limit, key=name)
        fl = ["oidci/oid", "pathci/oid"] if uni == "case" else flavors
        allc = [dict(c, project_state=True) for c in sc.with_flavors(cases, fl)]
        sc.run_family(ctx, allc, "engine-reached states %s" % name, CLAUSES,
                      extra_sig=lambda case, trace, line: {"idless_pending": c08.idless_pending(trace[line - 1])})


def replay(ctx, rep):
    case = rep["case"]
    if "state_case" in case:
        run_state_family(ctx, [case["state_case"]], "replay")
    else:
        sc.replay_case(ctx, rep, CLAUSES, extra_sig=lambda case, trace, line: {"idless_pending": c08.idless_pending(trace[line - 1])})


if __name__ == "__main__":
    main("C11", run, replay)

"""
C16 - offline-runnable providers honour the provider contract the engine relies on.

design:     ProviderModel.tla / MC_Provider_<style>_<case>.cfg  (TLC, exhaustive: tree well-formed, queries agree,
            id stability, every mutation reported, for both id styles and both case modes);
            ProviderIdentity.tla (identity part: foreign identity refused in every state, owner accepted in every
            state, binding stable) checked in the Gen_Identity run
spec->code: Gen_Provider prints every transition of the model's tree graph up to MaxLen calls (VIEW: each distinct
            tree is expanded once, reached by a shortest call sequence, and EVERY call from it is printed), with the
            hazard tags of every prefix; -simulate produces sequences of 10 calls over the full alphabet.
            CONTENT family (EmitMode "content"): the same exhaustive enumeration over names a, b (depth 1) and ALL
            18 contents of ProviderModel's table - byte strings drawn around the boundaries of a head+tail sampler
            (0, 1, 700, 1024, 1025, 1500, 2048, 2049, 3000 bytes), as groups that are distinct but collide under
            partial sampling (same first KiB and different after it, different only in the middle / tail / head);
            once a file exists the generator writes the same bytes or a colliding partner over it / next to it.
            The simulation draws contents group by group in the same way.
            IDENTITY family: ProviderIdentity.tla models the provider's bound identity (unbound / bound to i;
            connect(credentials of j) succeeds iff unbound or i = j, and binds; a refusal changes neither the
            binding nor a disconnected status; disconnect keeps the binding; reconnect = connect with the
            credentials held).  Gen_Identity enumerates every sequence of connect(a) / connect(b) / disconnect /
            reconnect (3 calls quick, 4 thorough) from every initial state and checks the design properties in
            the same run.  The sequences run on providers that were never connected (see execute_identity for
            the two ways an account is presented); outcome, `connected` and connection_id are recorded after
            every call and Trace_Provider judges IdentityRefused (every time, not only the first),
            BindingUnchangedByRefusal, OwnerAccepted, LoginBinds, DisconnectKeepsBinding, ReconnectKeepsBinding.
            Each sequence is executed on a FRESH
            provider of every kind: the four MockProvider flavours (+ filter_events for the id-style ones in
            thorough) and FileSystemProvider over a fresh temporary directory.
code->spec: after every call the harness records the result (exception class / returned id / hash) and the events
            drained since the previous call; and a FULL OBSERVATION of the provider: info_path/exists_path for every
            path of the universe, info_oid/exists_oid/hash_oid/download/listdir for every id, hash_data for every
            content of the table (so a collision of the data-hash function itself is seen in every trace).
            Simulated sequences are observed after every call.  In the exhaustive family every call sequence is the
            last call of its own trace, so each trace is observed in full after its LAST call only (every call of the
            family is observed in some trace; observing the prefixes again would triple the cost for nothing).
            Trace_Provider (TLC) replays the calls on ProviderModel and evaluates every clause of the property on
            what the CODE answered.  Python only executes and records.
verdict:    a (trace, line, clause) reported by TLC becomes a signature {clause, provider, op, tags of the prefix,
            tags of the call, query kind / size class / expected and observed error class}; listed findings
            (findings.d/C16.json -> known_findings.json) absorb exactly their signatures.
Debugging aids (not used by the check itself): VERIF_DEBUG=1|file, VERIF_C16_KINDS=kind,..., VERIF_C16_PART=sims|exhaustive.
"""
import io
import json
import os
import random
import shutil
import sys
import tempfile
import threading
import time

from ..core import import_repo, MachineryError
from ..runner import main
from .. import tracecheck as tc

# ---- the JSON bridge: names, contents ------------------------------------------------------------------------------
NAME = {1: "a", 2: "A", 3: "b", 4: "é", 5: "a.b"}
BAD = 6                                        # name code of "a name with a forbidden character"
BAD_MOCK = "a?"                                # MockProvider: _forbidden_chars = ['?'] (the knob the repo's own tests use)
BAD_FS = "n" * 300                             # file system: longer than NAME_MAX -> ENAMETOOLONG
KIB = 1024
# One text; every content is a prefix of it with at most one short range of bytes replaced (= the table at SizeOf in
# ProviderModel.tla: size, replaced range).  The members of a group are distinct byte strings that collide under
# some partial sampling of the file (first KiB only, last KiB only, both, a sampled prefix taken for the whole).
BASE = b"".join(b"line %05d of the document\n" % i for i in range(120))[:3000]
CONTENT_SPEC = [(0, None), (1, None),
                (700, None), (700, (684, 700)),                # < 1 KiB: differ in the last 16 bytes
                (1024, None), (1024, (1023, 1024)),            # exactly 1 KiB: differ in the last byte
                (1025, None), (1025, (1024, 1025)),            # 1 KiB + 1: same first KiB, differ in byte 1025
                (1500, None), (1500, (1484, 1500)),            # 1-2 KiB: same first KiB, differ in the last 16 bytes
                (2048, None), (2048, (2032, 2048)),            # exactly 2 KiB: same first KiB, differ in the last 16
                (2049, None), (2049, (1024, 1025)),            # 2 KiB + 1: differ in the one byte of neither block
                (3000, None), (3000, (1400, 1416)),            # > 2 KiB: 16 differs from 15 only in the middle,
                (3000, (2984, 3000)), (3000, (0, 16))]         #          17 only in the tail, 18 only in the head
NCONTENT = len(CONTENT_SPEC)
SIZES = [n for n, _ in CONTENT_SPEC]                           # = SizeOf in ProviderModel.tla


def content(c):
    n, rng = CONTENT_SPEC[c - 1]
    b = BASE[:n]
    if rng:
        b = b[:rng[0]] + b"#" * (rng[1] - rng[0]) + b[rng[1]:]
    return b


CONTENT = {c: content(c) for c in range(1, NCONTENT + 1)}
CONTENT_ID = {v: k for k, v in CONTENT.items()}


def size_class(c):                             # = SizeClass in ProviderModel.tla
    n = SIZES[c - 1]
    return 0 if n == 0 else 1 if n < KIB else 2 if n == KIB else 3 if n < 2 * KIB else 4 if n == 2 * KIB else 5


def group(c):                                  # = Group in ProviderModel.tla
    return 8 if c >= 15 else (c + 1) // 2


SIZE_CLASS_NAME = {0: "0 bytes", 1: "< 1 KiB", 2: "exactly 1 KiB", 3: "1025..2047 bytes", 4: "exactly 2 KiB",
                   5: "> 2 KiB"}


def _check_contents():
    """The byte strings are what the table in ProviderModel.tla says they are (machinery self-check)."""
    ok = len(BASE) == 3000 and len(CONTENT_ID) == NCONTENT == 18 and all(len(CONTENT[c]) == SIZES[c - 1] for c in CONTENT)
    head, tail = (lambda b: b[:KIB]), (lambda b: b[-KIB:])
    for a, b in ((7, 8), (9, 10), (11, 12)):                   # same first KiB, differ after it
        ok = ok and head(CONTENT[a]) == head(CONTENT[b]) and CONTENT[a][KIB:] != CONTENT[b][KIB:]
    for a, b in ((13, 14), (15, 16)):                          # differ only in the middle
        ok = ok and head(CONTENT[a]) == head(CONTENT[b]) and tail(CONTENT[a]) == tail(CONTENT[b])
    ok = ok and head(CONTENT[15]) == head(CONTENT[17]) and tail(CONTENT[15]) != tail(CONTENT[17])      # tail only
    ok = ok and CONTENT[15][16:] == CONTENT[18][16:] and head(CONTENT[15]) != head(CONTENT[18])        # head only
    ok = ok and all(CONTENT[b].startswith(CONTENT[a]) for a, b in zip((2, 3, 5, 7, 9, 11, 13), (3, 5, 7, 9, 11, 13, 15)))
    ok = ok and all(len({group(c) for c in CONTENT if SIZES[c - 1] == n}) == 1 for n in set(SIZES) - {0, 1})
    if not ok:
        raise MachineryError("content table of c16.py is not the one described in ProviderModel.tla")


_check_contents()

KINDS = {                                      # kind -> (OidIsPath, CaseSensitive, filter_events)
    "mock_oid_cs": (False, True, False),
    "mock_oid_ci": (False, False, False),
    "mock_path_cs": (True, True, False),
    "mock_path_ci": (True, False, False),
    "mock_oid_cs_filt": (False, True, True),
    "mock_oid_ci_filt": (False, False, True),
    "fs": (True, True, False),
}
FLAVOURS = [(False, True), (False, False), (True, True), (True, False)]


def flavour_name(oip, cs):
    return ("path" if oip else "oid") + "_" + ("cs" if cs else "ci")


def universe(names, depth):
    out = [[n] for n in names]
    if depth >= 2:
        out += [[a, b] for a in names for b in names]
    return out


# ---- one provider under test ---------------------------------------------------------------------------------------
class Sut:
    """A fresh provider of one kind plus the codecs between real ids / hashes / paths and the small values of
    the specification.  Nothing in here compares anything with an expectation."""

    def __init__(self, kind, scratch, mech=None):
        """mech None: a connected provider, for the tree families.  mech "acct" / "stock": a provider that was never
        connected, for the identity family (acct: the login yields the account named in the credentials)."""
        import_repo()
        from cloudsync.exceptions import (CloudFileExistsError, CloudFileNotFoundError, CloudFileNameError,
                                          CloudTokenError)
        self.EXC = [(CloudFileExistsError, 1), (CloudFileNotFoundError, 2), (CloudFileNameError, 4),
                    (CloudTokenError, 5)]
        self.kind = kind
        self.oip, self.cs, self.filt = KINDS[kind]
        self.is_fs = kind == "fs"
        self.dir = None
        self.events_glitches = 0
        self.sync_n = 0
        if self.is_fs:
            from cloudsync.providers.filesystem import FileSystemProvider
            self.dir = tempfile.mkdtemp(prefix="c16fs_", dir=scratch)
            self.p = (account_class(FileSystemProvider) if mech == "acct" else FileSystemProvider)()
            self.p.namespace_id = os.path.join(self.dir, "ns")
            self.creds = {}
            if mech is None:
                self.p.connect(self.creds)
            self.prefix = self.p.namespace_id
            self.bad = BAD_FS
            self.observer = None
            try:                                # only to join its thread afterwards (inotify instances are limited)
                pool = FileSystemProvider._observers
                self.observer = pool.pool.get(pool.generic_normalize_path(self.prefix))
            except Exception:
                pass
        else:
            from cloudsync.providers.mock import MockProvider
            cls = account_class(MockProvider) if mech == "acct" else MockProvider
            self.p = cls(self.oip, self.cs, filter_events=self.filt)
            self.p._forbidden_chars = ["?"]
            self.creds = {"key": "val"}
            if mech is None:
                self.p.connect(self.creds)
            self.prefix = ""
            self.bad = BAD_MOCK
        self.name = dict(NAME)
        self.name[BAD] = self.bad
        self.code = {v: k for k, v in self.name.items()}
        self.ids = {}                           # id-style: real id -> small integer, in order of first appearance
        self.rev = {}
        self.hashes = {}                        # real hash value -> small integer
        self.issued = {}                        # path-style: case-folded id -> the id string the provider last issued

    # -- codecs
    def pstr(self, p):
        return "/" + "/".join(self.name.get(n, "unknown-%s" % n) for n in p)

    def pdec(self, s):
        """provider path string -> list of name codes ([0] when it is not a path of the universe)"""
        if s is None or not isinstance(s, str):
            return [0]
        parts = [x for x in s.replace("\\", "/").split("/") if x]
        out = [self.code.get(x, 0) for x in parts]
        return [0] if 0 in out else out

    def oid_real(self, x):
        if self.oip:
            return (self.prefix + self.pstr(x)) if x else (self.prefix or "/")
        if x in self.rev:
            return self.rev[x]
        return "nosuch-%s" % x

    def oid_enc(self, o, issue=True):
        if self.oip:
            if o is None or not isinstance(o, str):
                return [0]
            if self.prefix:
                if o == self.prefix:
                    return []
                if not o.startswith(self.prefix + "/"):
                    return [0]
                enc = self.pdec(o[len(self.prefix):])
            else:
                enc = self.pdec(o)
            if enc != [0] and issue:
                self.issued[o if self.cs else o.lower()] = o
            return enc
        if o is None:
            return 0
        if isinstance(o, str) and o.startswith("nosuch-"):
            return int(o[7:])
        if o not in self.ids:
            k = len(self.ids) + 1
            self.ids[o] = k
            self.rev[k] = o
        return self.ids[o]

    def henc(self, h):
        if h is None:
            return 0
        k = repr(h)
        if k not in self.hashes:
            self.hashes[k] = len(self.hashes) + 1
        return self.hashes[k]

    def exc_class(self, e):
        for cls, code in self.EXC:
            if isinstance(e, cls):
                return code
        return 9

    @staticmethod
    def otype(t):
        v = getattr(t, "value", None)
        return 1 if v == "file" else 2 if v == "dir" else 0

    # -- observation
    def info_rec(self, info, rec):
        if info is None:
            rec.update(f=0, oid=[0] if self.oip else 0, t=0, rp=[0], h=0, sz=0)
        else:
            rec.update(f=1, oid=self.oid_enc(info.oid), t=self.otype(info.otype), rp=self.pdec(info.path),
                       h=self.henc(info.hash), sz=int(info.size or 0))
        return rec

    def observe(self, paths):
        p = self.p
        P, O = [], []
        for q in [[]] + paths:
            s = self.pstr(q) if q else "/"
            rec = {"p": q}
            try:
                rec["ex"] = 1 if p.exists_path(s) else 0
            except Exception:
                rec["ex"] = 9
            try:
                self.info_rec(p.info_path(s), rec)
            except Exception:
                self.info_rec(None, rec)
                rec["f"] = 9
            P.append(rec)
        if self.oip:
            # every path of the universe as an id; where the provider has issued an id for that path, in the very
            # spelling it issued (the engine only ever passes ids it received)
            oids = []
            for q in [[]] + paths:
                o = self.oid_real(q)
                o = self.issued.get(o if self.cs else o.lower(), o)
                if o not in oids:
                    oids.append(o)
        else:
            oids = [self.rev[k] for k in sorted(self.rev)] + ["nosuch-99"]
        for o in oids:
            rec = {}
            try:
                rec["ex"] = 1 if p.exists_oid(o) else 0
            except Exception:
                rec["ex"] = 9
            try:
                self.info_rec(p.info_oid(o), rec)
            except Exception:
                self.info_rec(None, rec)
                rec["f"] = 9
            rec["oid"] = self.oid_enc(o, issue=False)        # the id that was asked about
            try:
                rec["ho"] = self.henc(p.hash_oid(o))
            except Exception:
                rec["ho"] = 0
            buf = io.BytesIO()
            try:
                p.download(o, buf)
                rec["de"], rec["dc"] = 0, CONTENT_ID.get(buf.getvalue(), 99)
            except Exception as e:
                rec["de"], rec["dc"] = self.exc_class(e), 0
            try:
                ents = list(p.listdir(o))
                rec["le"] = 0
                rec["ls"] = [{"oid": self.oid_enc(d.oid), "n": self.code.get(d.name, 0), "t": self.otype(d.otype),
                              "h": self.henc(d.hash)} for d in ents]
            except Exception as e:
                rec["le"], rec["ls"] = self.exc_class(e), []
            O.append(rec)
        hd = []
        for c in range(1, NCONTENT + 1):
            try:
                hd.append(self.henc(p.hash_data(fresh(c))))
            except Exception:
                hd.append(0)
        return {"P": P, "O": O, "hd": hd}

    # -- events
    def ev_enc(self, e):
        return {"oid": self.oid_enc(e.oid), "ex": 1 if e.exists is True else 0 if e.exists is False else 2,
                "t": self.otype(e.otype), "path": self.pdec(e.path),
                "prior": self.oid_enc(e.prior_oid) if (e.prior_oid is not None or self.oip) else 0}

    def _events(self):
        try:
            return list(self.p.events())
        except AssertionError:                  # FileSystemProvider.events() asserts outside its lock; retried
            self.events_glitches += 1
            return []

    def drain(self, timeout=15.0):
        """Events since the previous drain.  Mock: synchronous.  File system: a sentinel file is created directly in
        the namespace; inotify delivers in order, so once the sentinel's event arrives everything the preceding
        API call caused has been delivered.  A time-out is recorded (es = 0), never raised."""
        if not self.is_fs:
            return [self.ev_enc(e) for e in self._events()], 1
        self.sync_n += 1
        tag = "zz_sync_%d" % self.sync_n
        spath = os.path.join(self.prefix, tag)
        os.close(os.open(spath, os.O_CREAT | os.O_WRONLY))
        out, seen, t0 = [], False, time.monotonic()
        while True:
            for e in self._events():
                blob = "%s|%s|%s" % (e.oid, e.prior_oid, e.path)
                if "zz_sync_" in blob:
                    if tag in blob:
                        seen = True
                    continue
                if not seen:
                    out.append(self.ev_enc(e))
            if seen or time.monotonic() - t0 > timeout:
                break
            time.sleep(0.0005)
        try:
            os.unlink(spath)
        except OSError:
            pass
        return out, 1 if seen else 0

    def close(self):
        try:
            self.p.disconnect()
        except Exception:
            pass
        if self.is_fs:
            try:
                if self.observer is not None:
                    self.observer.thread.join(timeout=5)
            except Exception:
                pass
            shutil.rmtree(self.dir, ignore_errors=True)


# ---- the identity family ---------------------------------------------------------------------------------------------
# Two ways of presenting an identity to Provider.connect (the code under test, inherited by every provider):
#  acct   a harness subclass of the provider whose connect_impl (the provider-specific login hook) answers with the
#         account named in the credentials, as a cloud provider's login does: identities a and b, any provider kind;
#  stock  the unmodified MockProvider: its login answers with a random id when unbound (identity 1 = the first one
#         seen) and with the stored id when bound, whatever the credentials; a foreign binding is the connection_id
#         "invalid", stored by hand, exactly as the repository's test_connect_basic does (identity 2).  Sequences
#         with connect(credentials of b) cannot be expressed there and are left out.
USER = {1: "a", 2: "b"}
_ACCOUNT_CLASSES = {}


def account_class(base):
    if base not in _ACCOUNT_CLASSES:
        class Account(base):                                   # pylint: disable=too-few-public-methods
            def connect_impl(self, creds):
                super().connect_impl(creds)
                return "acct:" + creds["user"]
        Account.__name__ = "Account" + base.__name__
        _ACCOUNT_CLASSES[base] = Account
    return _ACCOUNT_CLASSES[base]


def identity_cases(histories):
    """Generated histories -> cases.  The initial state of the design (bound to i by an earlier session, holding
    the credentials of c) is reached through the API: connect(i), disconnect, set_creds(c); these set-up calls are
    part of the case.  stock: bound to 2 = connect, disconnect, connection_id = "invalid"."""
    out = {"acct": [], "stock": []}
    for hst in histories:
        b, c = hst["init"]["bound"], hst["init"]["creds"]
        calls = [{"op": x["op"], "j": x["j"]} for x in hst["calls"]]
        setup = []
        if b:
            setup = [{"op": "connect", "j": b, "setup": 1}, {"op": "disconnect", "j": 0, "setup": 1}]
            if c != b:
                setup.append({"op": "setcreds", "j": c, "setup": 1})
        out["acct"].append({"ident": 1, "mech": "acct", "calls": setup + calls, "tags": []})
        if (b, c) in ((0, 0), (1, 1), (2, 1)) and not any(x["op"] == "connect" and x["j"] == 2 for x in calls):
            setup = []
            if b:
                setup = [{"op": "connect", "j": 1, "setup": 1}, {"op": "disconnect", "j": 0, "setup": 1}]
            if b == 2:
                setup.append({"op": "bindforeign", "j": 2, "setup": 1})
            out["stock"].append({"ident": 1, "mech": "stock", "calls": setup + calls, "tags": []})
    return out


def execute_identity(kind, case, scratch):
    """Run one sequence of logins on a provider that was never connected; after every call record the outcome,
    `connected` and connection_id."""
    mech = case["mech"]
    s = Sut(kind, scratch, mech=mech)
    p = s.p
    seen = {}

    def cid():
        v = p.connection_id
        if v is None:
            return 0
        if mech == "acct":
            return {"acct:a": 1, "acct:b": 2}.get(v, 9)
        if v == "invalid":
            return 2
        if v not in seen:
            seen[v] = 1 if not seen else 2 + len(seen)         # the first login's id is identity 1; others are new ones
        return seen[v]

    def creds(j):
        return dict(s.creds, user=USER[j]) if mech == "acct" else dict(s.creds)

    tr = [{"op": "idinit", "conn": 1 if p.connected else 0, "cid": cid()}]
    try:
        for c in case["calls"]:
            op, j = c["op"], c["j"]
            ev = {"op": op, "j": j, "exc": 0}
            try:
                if op == "connect":
                    p.connect(creds(j))
                elif op == "disconnect":
                    p.disconnect()
                elif op == "reconnect":
                    p.reconnect()
                elif op == "setcreds":
                    p.set_creds(creds(j))
                elif op == "bindforeign":
                    p.connection_id = "invalid"
                else:
                    raise MachineryError("unknown identity op %r" % op)
            except MachineryError:
                raise
            except Exception as e:
                ev["exc"] = s.exc_class(e)
                ev["exc_type"] = type(e).__name__
            ev["conn"], ev["cid"] = 1 if p.connected else 0, cid()
            tr.append(ev)
        if s.is_fs and s.observer is None:
            try:
                pool = type(p)._observers
                s.observer = pool.pool.get(pool.generic_normalize_path(s.prefix))
            except Exception:
                pass
    finally:
        s.close()
    return tr


def fresh(c):
    """the bytes of content c as a stream over a NEW bytes object (equal bytes, never the same object)"""
    return io.BytesIO(bytes(bytearray(CONTENT[c])))


def execute(kind, case, scratch):
    """Run one call sequence on a fresh provider; return the trace of what really happened."""
    if case.get("ident"):
        return execute_identity(kind, case, scratch)
    calls = case["calls"]
    paths = universe(case["names"], case["depth"])
    every = bool(case.get("observe_every"))    # else: full observation after the LAST call only (the shorter
    #                                            call sequences are traces of their own in the exhaustive family)
    s = Sut(kind, scratch)
    p = s.p
    tr = []
    try:
        root = p.info_path("/")
        if not s.oip:
            s.oid_enc(root.oid if root else "noroot")         # the root is object 1
        s.drain()
        tr.append({"op": "init", "filt": 1 if s.filt else 0, "obs": s.observe(paths if every else []), "evs": [],
                   "es": 1})
        if s.is_fs:
            s.drain()                                          # flush what the observation itself caused (file opens)
        for n, c in enumerate(calls):
            op = c["op"]
            ev = {"op": op, "p": c["p"], "x": c["x"], "c": c["c"], "exc": 0, "rid": [0] if s.oip else 0, "rh": 0}
            try:
                if op == "create":
                    r = p.create(s.pstr(c["p"]), fresh(c["c"]))
                    ev["rid"], ev["rh"] = s.oid_enc(r.oid), s.henc(r.hash)
                elif op == "mkdir":
                    ev["rid"] = s.oid_enc(p.mkdir(s.pstr(c["p"])))
                elif op == "upload":
                    r = p.upload(s.oid_real(c["x"]), fresh(c["c"]))
                    ev["rid"], ev["rh"] = s.oid_enc(r.oid), s.henc(r.hash)
                elif op == "rename":
                    ev["rid"] = s.oid_enc(p.rename(s.oid_real(c["x"]), s.pstr(c["p"])))
                elif op == "delete":
                    p.delete(s.oid_real(c["x"]))
                else:
                    raise MachineryError("unknown op %r" % op)
            except MachineryError:
                raise
            except Exception as e:
                ev["exc"] = s.exc_class(e)
                ev["exc_type"] = type(e).__name__
            ev["evs"], ev["es"] = s.drain()
            if every or n == len(calls) - 1:
                ev["ob"], ev["obs"] = 1, s.observe(paths)
                if s.is_fs:
                    s.drain()
            else:
                ev["ob"] = 0
            tr.append(ev)
        # connecting under another identity (as the repository's test_connect_basic does it)
        from cloudsync.provider import CONNECTION_NOT_NEEDED
        ev = {"op": "connect_other", "hasid": 0 if p.connection_id == CONNECTION_NOT_NEEDED else 1, "exc": 0, "conn": 0}
        try:
            p.disconnect()
            p.connection_id = "invalid"
            p.connect(s.creds)
        except Exception as e:
            ev["exc"] = s.exc_class(e)
            ev["exc_type"] = type(e).__name__
        ev["conn"] = 1 if p.connected else 0
        tr.append(ev)
        if s.events_glitches:
            tr[0]["glitches"] = s.events_glitches
    finally:
        s.close()
    return tr


# ---- families ------------------------------------------------------------------------------------------------------
def _set(xs):
    return "{" + ", ".join(str(x) for x in sorted(xs)) + "}"


def model_constants(oip, cs, names, contents, bad=(), depth=2):
    return ("CONSTANTS\n Names = %s\n MaxDepth = %d\n Contents = %s\n OidIsPath = %s\n CaseSensitive = %s\n"
            " BadNames = %s\n" % (_set(names), depth, _set(contents), "TRUE" if oip else "FALSE",
                                  "TRUE" if cs else "FALSE", _set(bad)))


def gen_cfg(ctx, oip, cs, names, contents, maxlen, mode, bad=(), depth=2):
    name = "Gen_Provider_%s_%s_%d_%d.cfg" % (flavour_name(oip, cs), mode, maxlen, len(list(names)))
    text = model_constants(oip, cs, names, contents, bad, depth) + \
        " MaxMutations = 0\n MaxLen = %d\n EmitMode = \"%s\"\nSPECIFICATION GenSpec\n%sINVARIANT Emit\nCHECK_DEADLOCK FALSE\n" \
        % (maxlen, mode, "VIEW GenView\n" if mode in ("action", "content") else "")
    return tc.gen_cfg(ctx, name, text)


def trace_cfg(ctx, oip, cs):
    text = model_constants(oip, cs, range(1, 7), range(1, NCONTENT + 1), bad=[BAD]) + \
        " MaxMutations = 0\n Ids = {1, 2}\nSPECIFICATION TraceSpec\nPOSTCONDITION Report\nCHECK_DEADLOCK FALSE\n"
    return tc.gen_cfg(ctx, "Trace_Provider_%s.cfg" % flavour_name(oip, cs), text)


def parse_gen(res, names, depth, what, every=False):
    if not res.ok:
        raise MachineryError("generator %s failed\n%s" % (what, res.tail()))
    out = []
    for h in res.printed():
        if h.startswith("{"):
            d = json.loads(h)
            pt = [sorted(t) for t in d["tags"]]
            c = {"calls": d["calls"], "tags": pt[-1], "ptags": pt, "names": list(names), "depth": depth}
            if every:
                c["observe_every"] = 1
            out.append(c)
    return out


def _exec_chunk(args):
    kind, cases, scratch = args
    threading.excepthook = lambda a: None       # the repo's Observer may raise in its own thread while disconnecting
    return [execute(kind, c, scratch) for c in cases]


def run_cases(ctx, plan, pool):
    """plan: list of (kind, [cases]).  Returns {kind: (cases, traces)}."""
    jobs = []
    for kind, cases in plan:
        step = max(5, min(400, len(cases) // (3 * ctx.workers) + 1))
        for k in range(0, len(cases), step):
            jobs.append((kind, cases[k:k + step], ctx.scratch))
    random.Random(1).shuffle(jobs)              # spread the slow (file system) chunks over the workers
    out = {}
    for job, trs in zip(jobs, pool.map(_exec_chunk, jobs, chunksize=1)):
        cs_, ts_ = out.setdefault(job[0], ([], []))
        cs_.extend(job[1])
        ts_.extend(trs)
    return out


def signature(kind, case, trace, line, clause):
    ev = trace[line - 1]
    parts = clause.split("/")
    k = line - 1                                # number of calls made when the clause failed
    ptags = case.get("ptags") or [case["tags"]] * len(case["calls"])
    tags = [] if k == 0 else ptags[min(k, len(ptags)) - 1]
    call = case["calls"][k - 1].get("tg", []) if 1 <= k <= len(case["calls"]) else []
    sig = {"clause": parts[0], "provider": kind, "op": ev["op"], "tags": tags, "call": "+".join(sorted(call))}
    if case.get("ident"):
        sig["mechanism"] = case["mech"]
    if parts[0] == "ErrorClass":
        sig["expected"] = parts[1].strip("{}").replace(" ", "")
        sig["got"] = int(parts[2])
        sig["exc_type"] = ev.get("exc_type", "")
    elif parts[0] == "QueriesAgree":
        sig["query"] = parts[1]
    elif parts[0] in ("HashMatchesData", "EqualBytesEqualHash", "DifferentBytesDifferentHash"):
        sig["size_class"] = int(parts[1])
    return sig


DIVERGE = ("ErrorClass", "QueriesAgree", "IdStable", "IdIsNormalisedPath")


def judge(ctx, results, what, stats=None):
    """TLC judges the recorded traces, one batch of JVMs per (id style, case mode).
    Traces of the exhaustive family are observed in full only after their last call; their shorter prefixes are
    traces of their own.  When TLC found that the provider's tree already differed from the model after a proper
    prefix (in that prefix's own trace), the longer trace's findings are consequences of it and are not reported a
    second time under the last call's name ('shadowed', counted in the evidence)."""
    from concurrent.futures import ThreadPoolExecutor
    total, found, groups = 0, [], []
    for oip, cs in FLAVOURS:
        traces, meta = [], []
        for kind, (cases, trs) in sorted(results.items()):
            if KINDS[kind][:2] == (oip, cs):
                traces.extend(trs)
                meta.extend((kind, c) for c in cases)
        if traces:
            groups.append((oip, cs, traces, meta))
    nall = sum(len(g[2]) for g in groups)

    class Part:                                  # the four flavours are validated side by side; counters merged below
        def __init__(self, share):
            self.scratch, self.workers = tempfile.mkdtemp(prefix="judge_", dir=ctx.scratch), share
            self.tlc_runs, self.cov = [], {"states": 0, "transitions": 0, "traces_validated_against_impl": 0}

    def one(g):
        oip, cs, traces, meta = g
        part = Part(max(1, min(ctx.workers, round(ctx.workers * len(traces) / max(1, nall)))))
        viols, _ = tc.validate(part, "Trace_Provider", trace_cfg(ctx, oip, cs), traces,
                               "%s [%s]" % (what, flavour_name(oip, cs)), min_batch=1200)
        return part, viols

    with ThreadPoolExecutor(max_workers=len(groups) or 1) as pool:
        for g, (part, viols) in zip(groups, pool.map(one, groups)):
            ctx.tlc_runs.extend(part.tlc_runs)
            for k, v in part.cov.items():
                ctx.cov[k] += v
            total += len(g[2])
            for ti, line, clause in sorted(viols):
                found.append((g[3][ti][0], g[3][ti][1], g[2][ti], line, clause))
    diverged = set()
    for kind, case, tr, line, clause in found:
        if clause.split("/")[0] in DIVERGE:
            diverged.add((kind, json.dumps(case["calls"][:line - 1])))
    shadowed = 0
    for kind, case, tr, line, clause in found:
        if any((kind, json.dumps(case["calls"][:k])) in diverged for k in range(1, line - 1)):
            shadowed += 1
            continue
        sig = signature(kind, case, tr, line, clause)
        ev = dict(tr[line - 1])
        ev.pop("obs", None)
        fid = ctx.report(sig, {"calls": case["calls"][:line - 1], "line": line, "observed": ev, "provider": kind,
                               "clause": clause},
                         replay={"kind": kind, "case": case})
        if stats is not None:
            key = (fid or "UNLISTED", "clean" if not sig["tags"] else ",".join(sig["tags"]))
            stats[key] = stats.get(key, 0) + 1
            if os.environ.get("VERIF_DEBUG"):
                k2 = json.dumps({k: v for k, v in sig.items()}, sort_keys=True) + " " + (fid or "UNLISTED")
                SIGS.setdefault(k2, [0, case["calls"][:line - 1]])[0] += 1
    ctx.extra["shadowed_by_an_earlier_divergence"] = ctx.extra.get("shadowed_by_an_earlier_divergence", 0) + shadowed
    return total


_T0 = [time.time()]
SIGS = {}


def dbg(what):
    if os.environ.get("VERIF_DEBUG"):
        sys.stderr.write("[c16 %6.1fs] %s\n" % (time.time() - _T0[0], what))


def fs_glitches(results):
    return sum(t[0].get("glitches", 0) for _, (_, trs) in results.items() for t in trs)


# ---- the check ------------------------------------------------------------------------------------------------------
def run(ctx):
    quick = ctx.tier == "quick"
    rng = random.Random(ctx.seed)
    ctx.extra["rule"] = (
        "Gen_Provider (TLC) prints every transition of ProviderModel's tree graph (each distinct tree expanded once, "
        "reached by a shortest call sequence; every create/mkdir/upload/rename/delete from it, failing ones included) "
        "- quick: up to 3 calls over names a, A (case-sensitive flavours) / a, A, b (case-insensitive), thorough: up "
        "to 3 calls over a, A, b and up to 4 calls over a, A; depth 2; one < 1 KiB and one > 2 KiB content - plus the "
        "content family: every transition up to 2 (quick) / 3 (thorough) calls over names a, b at depth 1 and all 18 "
        "contents (sizes 0, 1, 700, 1024, 1025, 1500, 2048, 2049, 3000; per size a group of byte strings that "
        "share the first KiB and differ after it / differ only in the middle, the tail or the head), where a file "
        "is followed by the same bytes or a colliding partner - plus -simulate sequences of 10 calls over the full "
        "alphabet (a, A, b, e-acute, a.b, forbidden name) and all 18 contents, group by group.  hash_data of all 18 "
        "contents is recorded at every observation.  Identity family (Gen_Identity, which also checks the design "
        "properties of ProviderIdentity): every sequence of 3 (quick) / 4 (thorough) calls connect(a) / connect(b) / "
        "disconnect / reconnect from every initial state (never connected; bound to a or b by an earlier session, "
        "holding a's or b's credentials), outcome + connected + connection_id recorded after every call.  Every "
        "sequence is executed on a fresh provider of each kind and "
        "judged by Trace_Provider (TLC).  distinct = distinct (provider kind, call sequence); non-trivial = at least one call "
        "of the sequence returned without exception on the provider")
    ctx.assume(
        "real cloud providers (box, dropbox, gdrive, onedrive) cannot run offline and are out of scope",
        "FileSystemProvider runs on a real temporary directory of this Linux host: case-sensitive only; events come "
        "through the installed watchdog 6.0 / inotify, delivery is awaited with a sentinel file (inotify is ordered) "
        "and a 15 s time-out that is recorded as 'events not seen'",
        "the root folder is never the target of upload / rename / delete; paths have depth <= 2",
        "ids are passed the way the engine passes them: in the spelling the provider issued (other spellings of a "
        "path-style id on a case-insensitive provider are explored as stratum OID_CASE); the class of a failing "
        "download and of a folder moved below itself are not documented: any exception is accepted there",
        "a path-style id equals the normalised path up to the provider's own normalisation (case folding)",
        "MockProvider's forbidden characters are switched on through its _forbidden_chars knob, as its tests do; "
        "the file system's forbidden name is one longer than NAME_MAX",
        "connecting under another identity is modelled as the repository's tests do (connection_id 'invalid'); "
        "the unmodified FileSystemProvider has no identity (CONNECTION_NOT_NEEDED) and is exempt from "
        "IdentityRefused there",
        "identity family: Provider.connect / disconnect / reconnect (inherited by every provider) are driven with two "
        "accounts through a harness subclass of each provider whose connect_impl - the provider-specific login hook "
        "- answers with the account named in the credentials (mechanism acct: all mock flavours and "
        "FileSystemProvider), and on the unmodified MockProvider with the repository's own idiom (mechanism stock: "
        "the login answers a random id when unbound, a foreign binding is connection_id 'invalid' stored by hand; "
        "connect with the other account's credentials cannot be expressed there).  Initial states of the design "
        "(bound by an earlier session) are reached through connect / disconnect / set_creds.  reconnect uses the "
        "credentials passed to the last connect or set_creds, refused or not (Provider.reconnect's documented "
        "'retain the creds used')",
        "TLC 2 / JVM; JSON bridge between provider values and specification values (names, content ids, hash ids, "
        "object ids numbered in order of first appearance) in vh/checks/c16.py")

    from concurrent.futures import ThreadPoolExecutor
    contents = [3, 15]                          # the tree families: one < 1 KiB and one > 2 KiB content
    all_contents = range(1, NCONTENT + 1)
    content_names, content_len = [1, 3], (2 if quick else 3)   # the content family: names a, b; depth 1
    idn_len = 3 if quick else 4                 # the identity family: sequences of idn_len logins
    nsim = 20 if quick else 200
    keep = 4 if quick else 6

    def families(fl):
        """(names, calls) of the exhaustive families of a flavour.  quick: case-sensitive flavours use a, A (two
        unrelated names there), case-insensitive ones a, A, b (to have two different names).  thorough: a, A, b to
        3 calls and a, A to 4 calls everywhere."""
        if quick:
            return [([1, 2] if fl[1] else [1, 2, 3], 3)]
        return [([1, 2, 3], 3), ([1, 2], 4)]
    maxlen = 3 if quick else 4
    spec_dir = os.path.join(os.path.dirname(os.path.abspath(tc.__file__)), "..", "spec")

    def design(fl):
        cfg = "MC_Provider_%s.cfg" % flavour_name(*fl)
        if not quick:
            with open(os.path.join(spec_dir, cfg)) as fh:
                cfg = tc.gen_cfg(ctx, "MC4_" + cfg, fh.read().replace("MaxMutations = 3", "MaxMutations = 4"))
        return ctx.model_check("ProviderModel", cfg, "design: tree well-formed, queries agree, id stability, every "
                               "mutation reported [%s]" % flavour_name(*fl), workers=2 if quick else 4, count=False)

    def exhaustive(fl):
        out, runs = [], []
        for names, n in families(fl):
            res = ctx.tlc("Gen_Provider", gen_cfg(ctx, fl[0], fl[1], names, contents, n, "action"), workers=1,
                          what="all transitions up to %d calls, names %s [%s]" % (n, names, flavour_name(*fl)),
                          count=False)
            out += parse_gen(res, names, 2, flavour_name(*fl))
            runs.append(res)
        return out, runs

    def content_family(fl):
        res = ctx.tlc("Gen_Provider", gen_cfg(ctx, fl[0], fl[1], content_names, all_contents, content_len, "content",
                                              depth=1), workers=1, count=False,
                      what="content family: all transitions up to %d calls, all contents [%s]"
                      % (content_len, flavour_name(*fl)))
        return parse_gen(res, content_names, 1, "content " + flavour_name(*fl)), res

    def identity_family():
        """every sequence of connect(a) / connect(b) / disconnect / reconnect of idn_len calls from every initial state
        of ProviderIdentity; the same TLC run checks the design properties of that module"""
        text = ("CONSTANTS\n Ids = {1, 2}\n MaxLen = %d\nSPECIFICATION IGenSpec\nINVARIANT IdTypeOK\n"
                "INVARIANT ConnectedAsBound\nINVARIANT ForeignRefused\nINVARIANT OwnerAccepted\n"
                "PROPERTY IGenBindingStable\nINVARIANT Emit\nCHECK_DEADLOCK FALSE\n" % idn_len)
        res = ctx.tlc("Gen_Identity", tc.gen_cfg(ctx, "Gen_Identity_%d.cfg" % idn_len, text), workers=1, count=False,
                      what="identity: design properties + every sequence of %d logins over two identities" % idn_len)
        if not res.ok:
            raise MachineryError("identity design / generator run not clean (violated=%s)\n%s"
                                 % (res.violated, res.tail(40)))
        hist = [json.loads(x) for x in res.printed() if x.startswith("{")]
        if len(hist) < 4 ** idn_len:
            raise MachineryError("identity generator produced only %d histories" % len(hist))
        return identity_cases(hist), res

    def simulated(fl):
        res = ctx.tlc("Gen_Provider", gen_cfg(ctx, fl[0], fl[1], range(1, 7), all_contents, 10, "final", bad=[BAD]),
                      workers=1, simulate="num=%d" % nsim, depth=11, extra=["-seed", str(ctx.seed + 1)],
                      what="simulate 10 calls, full alphabet [%s]" % flavour_name(*fl), count=False)
        return parse_gen(res, range(1, 7), 2, "simulate " + flavour_name(*fl), every=True), res

    # design level (4), exhaustive tree family (4), content family (4), simulated long histories (4): sixteen TLC
    # runs side by side; the exhaustive families are executed and judged while the design runs and the simulations
    # are still going
    only = os.environ.get("VERIF_C16_KINDS", "").split(",") if os.environ.get("VERIF_C16_KINDS") else None   # debugging aid
    part = os.environ.get("VERIF_C16_PART", "all")                                                           # debugging aid
    stats, results, counted = {}, {}, []
    workers = ctx.pool()                        # the run's shared pool of forked workers: forked here, BEFORE any thread
    #                                             is started (the TLC runs are driven from threads from here on)
    pool = ThreadPoolExecutor(max_workers=17)
    try:
        f_design = [pool.submit(design, fl) for fl in FLAVOURS]
        f_fam = {fl: pool.submit(exhaustive, fl) for fl in FLAVOURS}
        f_con = {fl: pool.submit(content_family, fl) for fl in FLAVOURS}
        f_idn = pool.submit(identity_family)
        f_sim = {fl: pool.submit(simulated, fl) for fl in FLAVOURS}

        def kinds_plan(by_flavour, extra=None, idn=None):
            plan = []
            for kind, (oip, cs, filt) in KINDS.items():
                if (filt and quick) or (only and kind not in only):
                    continue
                cases = list(by_flavour[(oip, cs)])
                if extra:
                    cases += [f["exemplar"]["case"] for f in ctx.findings
                              if f.get("exemplar") and f["exemplar"]["kind"] == kind]
                if idn and not filt:            # filter_events has no part in logins
                    cases += idn["acct"] + (idn["stock"] if kind != "fs" else [])
                plan.append((kind, cases))
            return plan

        def do(plan, what):
            res = run_cases(ctx, plan, workers)
            dbg("executed " + what)
            n = judge(ctx, res, what, stats)
            dbg("judged " + what)
            ctx.count(evaluations=n)
            for kind, (cs_, ts_) in res.items():
                a, b = results.setdefault(kind, ([], []))
                a.extend(cs_)
                b.extend(ts_)

        fam = {}
        for fl, f in f_fam.items():
            fam[fl], runs = f.result()
            counted.extend(runs)
            if len(fam[fl]) < 500:
                raise MachineryError("generator produced only %d histories" % len(fam[fl]))
        ctx.extra["exhaustive_transitions"] = {flavour_name(*k): len(v) for k, v in fam.items()}
        con = {}
        for fl, f in f_con.items():
            con[fl], res = f.result()
            counted.append(res)
            if len(con[fl]) < 300:
                raise MachineryError("content generator produced only %d histories" % len(con[fl]))
            seen = {c["c"] for h in con[fl] for c in h["calls"] if c["op"] in ("create", "upload")}
            pairs = {(h["calls"][0]["c"], h["calls"][1]["c"]) for h in con[fl] if len(h["calls"]) >= 2
                     and h["calls"][0]["op"] == "create" and h["calls"][1]["op"] in ("create", "upload")}
            want = {(a, b) for a in all_contents for b in all_contents if group(a) == group(b)}
            if seen != set(all_contents) or not want <= pairs:
                raise MachineryError("content generator: contents %s, %d of %d colliding / identical pairs"
                                     % (sorted(seen), len(want & pairs), len(want)))
            fam[fl] = fam[fl] + con[fl]
        dbg("exhaustive generators")
        ctx.cov["exhaustive"] = True
        ctx.extra["content_family_transitions"] = {flavour_name(*k): len(v) for k, v in con.items()}
        idn, res = f_idn.result()
        counted.append(res)
        ctx.extra["identity_sequences"] = {k: len(v) for k, v in idn.items()}
        # exemplars of the listed findings are re-executed on every run, together with the exhaustive family
        plan = kinds_plan(fam if part != "sims" else {fl: [] for fl in FLAVOURS}, extra=True,
                          idn=idn if part != "sims" else None)
        ctx.extra["family_sizes"] = {k: len(v) for k, v in plan}
        do(plan, "all transitions up to %d calls + exemplars" % maxlen)

        sims = {}
        for fl, f in f_sim.items():
            allh, res = f.result()
            groups = {}
            for h in allh:                                      # candidates that share a prefix: keep a few of each
                groups.setdefault(json.dumps(h["calls"][:-1]), []).append(h)
            if len(groups) < nsim:
                raise MachineryError("simulation produced only %d histories\n%s" % (len(groups), res.tail()))
            pick = []
            for key in sorted(groups):
                g = sorted(groups[key], key=lambda h: json.dumps(h["calls"][-1]))
                rng.shuffle(g)
                pick.extend(g[:keep])
            sims[fl] = pick
        dbg("simulations generated")
        ctx.extra["simulated_histories"] = {flavour_name(*k): len(v) for k, v in sims.items()}
        if part != "exhaustive":
            plan = kinds_plan(sims)
            for k, v in plan:
                ctx.extra["family_sizes"][k] = ctx.extra["family_sizes"].get(k, 0) + len(v)
            do(plan, "simulated sequences of 10 calls")
        counted += [f.result() for f in f_design]
        dbg("design runs")
    finally:
        pool.shutdown(wait=True)
    for res in counted:
        ctx.cov["states"] += res.distinct
        ctx.cov["transitions"] += res.generated
    ctx.extra["fs_events_assertion_glitches"] = fs_glitches(results)

    nontrivial, strata = set(), {}
    for kind, (cases, trs) in results.items():
        for c, t in zip(cases, trs):
            if any(e.get("exc") == 0 and e["op"] not in ("init", "connect_other") for e in t):
                nontrivial.add((kind, c.get("mech", ""), json.dumps(c["calls"])))
            key = "clean" if not c["tags"] else ",".join(c["tags"])
            strata[key] = strata.get(key, 0) + 1
    ctx.count(nontrivial=len(nontrivial))
    ctx.extra["strata_sizes"] = strata
    ctx.extra["failures_by_finding_and_stratum"] = {"%s | %s" % k: v for k, v in sorted(stats.items())}
    if os.environ.get("VERIF_DEBUG"):
        with open(os.environ["VERIF_DEBUG"] if os.environ["VERIF_DEBUG"] != "1" else "/tmp/c16_sigs.txt", "w") as fh:
            for k, (n, ex) in sorted(SIGS.items(), key=lambda kv: -kv[1][0]):
                fh.write("%6d %s\n        e.g. %s\n" % (n, k, json.dumps(ex)))
    for kind in ("mock_oid_cs", "fs"):
        if kind in results:
            both = [(c, t) for c, t in zip(*results[kind]) if not c.get("ident")]
            idt = [(c, t) for c, t in zip(*results[kind]) if c.get("ident")]
            if idt and kind == "fs":
                ctx.sample({"provider": kind, "identity_mechanism": idt[len(idt) // 2][0]["mech"],
                            "identity_trace": idt[len(idt) // 2][1]}, limit=7)
            if not both:
                continue
            cs_, ts_ = [c for c, _ in both], [t for _, t in both]
            ctx.sample({"provider": kind, "calls": cs_[len(cs_) // 2]["calls"], "tags": cs_[len(cs_) // 2]["tags"]})
            t = ts_[len(ts_) // 2]
            ctx.sample({"provider": kind, "last_trace_line": {k: v for k, v in t[-2].items() if k != "obs"},
                        "observation_of_first_path": t[-2]["obs"]["P"][1]})


def replay(ctx, rep):
    case = rep["case"]
    kind, c = case["kind"], case["case"]
    tr = execute(kind, c, ctx.scratch)
    judge(ctx, {kind: ([c], [tr])}, "replay")
    ctx.count(evaluations=1, nontrivial=2)
    ctx.sample({"provider": kind, "calls": c["calls"]})
    for ln in tr[1:] if c.get("ident") else tr[1:-1]:
        if c.get("ident"):
            print("  %s j=%s -> exc=%s connected=%s connection_id=%s" % (ln["op"], ln["j"], ln["exc"], ln["conn"],
                                                                        ln["cid"]))
            continue
        print("  %s p=%s x=%s c=%s -> exc=%s rid=%s events=%s" % (ln["op"], ln["p"], ln["x"], ln["c"], ln["exc"],
                                                                 ln["rid"], ln["evs"]))


if __name__ == "__main__":
    main("C16", run, replay)

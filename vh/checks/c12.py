"""
C12 - root confinement: nothing outside the sync roots is synced or modified.

The accounts hold objects outside the roots: another folder, the prefix sibling '<root>X', a file in the account root.
Families (Gen_Sys.tla, universe "out"): every one-sided history of n operations mixing operations inside the roots,
outside them, and moves across the boundary; every schedule token; roots given by path or by id; event filtering on or
off (flavours); a custom translate function that declines one subfolder.  The whole account is projected.  Judged by
Trace_Sys.tla:
  InsideRoot         source and target of every engine-issued create/upload/rename/delete/mkdir lie inside that side's root
  OutsideUntouched   after every engine step and at quiet, everything outside the roots is exactly what the users left
  Converged          at quiet the other side's root holds exactly the image of the origin's root (so nothing from outside
                     was copied, a move out of the root is a deletion, a move in is a creation)
  OriginUntouched    the engine makes no effective change inside the origin root either
  DeclinedLeftAlone  no engine call touches a path the translate function declines
"""
from ..runner import main
from .. import syscheck as sc

CLAUSES = {"InsideRoot", "OutsideUntouched", "Converged", "OriginUntouched", "DeclinedLeftAlone", "ReachesQuiet", "NoEscape"}
GAPS = ["I", "IS", "ISS", "Q"]


def variants(cases, tier):
    out = []
    for c in cases:
        d = dict(c, whole=True, kase={"kind": "c12", "declined": []})
        out.append(d)
        if tier != "quick" or hash(str(c["tokens"])) % 3 == 0:
            out.append(dict(d, root_by_oid=True))
        if tier != "quick" or hash(str(c["tokens"])) % 3 == 1:
            out.append(dict(d, decline=[10, 3], kase={"kind": "c12", "declined": [10, 3]}))
    return out


def xsig(case, trace, line):
    return {"root_by_oid": bool(case.get("root_by_oid")), "decline": bool(case.get("decline"))}


def run(ctx):
    ctx.extra["rule"] = ("every one-sided history of n operations over a universe with objects outside the roots (other folder, "
                         "prefix sibling, account-root file) incl. moves across the boundary (TLC-enumerated) x schedule tokens x "
                         "{root by path, root by id, declining translate} x flavours (filtering on/off); non-trivial = at least one "
                         "effective engine write")
    ctx.assume("MockProvider flavours are the environment", "virtual clock; ageing 0",
               "objects outside the roots exist as separate copies on both accounts")
    ctx.model_check("SysMC", "MC_SysMC.cfg", "design: InsideRoot guard keeps everything confined for any engine", workers=4)
    sc.run_exemplars(ctx, CLAUSES, extra_sig=xsig)
    from .. import sysfam
    if ctx.tier == "quick":
        plan = [(2, None, 700), (3, "sim", 300)]
        flavors = ["oid/oid", "path/oidf", "oidf/path"]
    else:
        plan = [(1, None, None), (2, None, 6000), (3, None, 1500), (4, "sim", 1000)]
        flavors = ["oid/oid", "path/oidf", "oidf/path", "path/path"]
    exhaustive = True
    for nops, mode, limit in plan:
        for side in (1, 2):
            name = "out_%d_s%d" % (nops, side)
            if mode == "sim":
                cases = sc.generate(ctx, name, [side], nops, GAPS, "out", filt="clean", simulate=(30, ctx.seed + side))
                exhaustive = False
            else:
                cases = sc.generate(ctx, name, [side], nops, GAPS, "out")
                ctx.extra.setdefault("family_sizes", {})[name] = len(cases)
            cases, full = sc.slice_cases(cases, limit, ctx.seed * 49979687 + nops + side)
            exhaustive = exhaustive and full
            allc = sc.with_flavors(variants(cases, ctx.tier), flavors)
            sc.run_family(ctx, allc, "confinement %s" % name, CLAUSES, extra_sig=xsig)
    # two-sided interleavings across the boundary (one side moves an object out of / into its root while the other side
    # acts on its copy, one side's events synced before the other's arrive): only the confinement clauses are judged
    # (what the trees should converge to under such conflicts is C01/C02's business)
    two = sc.generate(ctx, "out_two2", [1, 2], 2, ["I1", "LSR", "RSL", "SI"], "out")
    two = [c for c in two if {t[1] for t in c["tokens"] if t[0] == "U"} == {0, 1}]
    ctx.extra.setdefault("family_sizes", {})["out_two2"] = len(two)
    two, full = sc.slice_cases(two, 1500 if ctx.tier == "quick" else 20000, key="out_two2")
    exhaustive = exhaustive and full
    sc.run_family(ctx, sc.with_flavors([dict(c, whole=True, kase={"kind": "c12", "declined": []}) for c in two], flavors),
                  "two-sided across the boundary", {"InsideRoot", "OutsideUntouched"}, extra_sig=xsig)
    ctx.cov["exhaustive"] = exhaustive


def replay(ctx, rep):
    sc.replay_case(ctx, rep, CLAUSES, extra_sig=xsig)


if __name__ == "__main__":
    main("C12", run, replay)

"""
C19 - the hierarchical path/id cache stays coherent under any operation sequence.

design:     HCache.tla (reference dictionary  path -> [oid, type, meta]  with the documented eviction rules);
            MC_HCache*.cfg: TLC explores the whole reachable state graph and checks Coherent / RoundTrip and the
            step properties (DescendantsForgotten, SubtreeMoved, Frame, EffectVisible) for every call in every state.
spec->code: Gen_HCache.tla (history variable, hazard tags per call computed by HCache!Tags)
              seq    every call sequence of a small length, canonical up to renaming of ids / names
              graph  one shortest hazard-free history per distinct (model state, call)  -- every state x every call
              sim    tlc -simulate: long random sequences (seeded by VERIF_SEED)
            each history is executed on a fresh HierarchicalCache (MockProvider, case-sensitive or -insensitive).
code->spec: after EVERY call the harness records all public getters over the universe and a structural walk
            (cache._root / node.children / cache._oid_to_node); Trace_HCache.tla (TLC) replays the calls on the
            reference dictionary and evaluates the property clauses on the observed structure.  Python executes and
            records; TLC judges.  Only the first failing line of a trace counts (see Trace_HCache.tla).
strata:     a failure is identified by (clause, hazard tags of the failing call, op, exception type, case mode);
            untagged calls must never fail; failures of tagged calls must match a finding in findings.d/C19.json.
"""
import json
import os
from collections import Counter
from concurrent.futures import ThreadPoolExecutor

from ..core import import_repo, MachineryError
from ..runner import main
from .. import tracecheck as tc

MODES = {"cs": {"names": ["a", "b"], "fold": False},
         "ci": {"names": ["a", "b", "A"], "fold": True}}
IDS = [1, 2, 3]
DEPTH = 2
ALL_OPS = ["create", "mkdir", "rename", "delete_path", "delete_oid", "set_oid", "update", "set_meta_path", "set_meta_oid"]
# tags a hazard-free prefix must avoid in graph mode = the tags the listed findings are about
HAZARDS = ["CASE_VARIANT", "ID_ON_ANCESTOR", "KEEP_ON_REPLACED"]
STRUCT_OPS = ALL_OPS[:7]
PARTS = [["update", "delete_oid", "set_meta_oid"], ["rename", "create", "delete_path"], ["set_oid", "mkdir", "set_meta_path"]]
ROOT_OID = "root"


# ------------------------------------------------------------------------------------------------------
# configuration files (constants are literal; written into the scratch directory)
def _set(xs, q=False):
    return "{" + ", ".join(('"%s"' % x) if q else str(x) for x in xs) + "}"


def consts(mode, ids=IDS, metas=(0, 1), depth=DEPTH):
    m = MODES[mode]
    return ("CONSTANTS\n Names = %s\n Ids = %s\n Depth = %d\n CaseFold = %s\n Metas = %s\n"
            % (_set(m["names"], True), _set(ids), depth, "TRUE" if m["fold"] else "FALSE", _set(metas)))


def gen_cfg(ctx, name, mode, maxlen, gmode, ids=IDS, metas=(0, 1), ops=ALL_OPS, last=ALL_OPS, hazards=HAZARDS):
    text = (consts(mode, ids, metas) + " MaxLen = %d\n Mode = \"%s\"\n Hazards = %s\n Ops = %s\n LastOps = %s\n"
            % (maxlen, gmode, _set(hazards, True), _set(ops, True), _set(last, True))
            + "SPECIFICATION GenSpec\nINVARIANT Emit\nVIEW GraphView\nCHECK_DEADLOCK FALSE\n")
    return tc.gen_cfg(ctx, "Gen_HCache_%s.cfg" % name, text)


def trace_cfg(ctx, mode):
    return tc.gen_cfg(ctx, "Trace_HCache_%s.cfg" % mode,
                      consts(mode, IDS, (0, 1, 2)) + "SPECIFICATION TraceSpec\nPOSTCONDITION Report\nCHECK_DEADLOCK FALSE\n")


# ------------------------------------------------------------------------------------------------------
# executing a history on the real cache and recording what is there afterwards
_env = {}


def _setup():
    if not _env:
        import_repo()
        from cloudsync.providers.mock import MockProvider
        from cloudsync.hierarchical_cache import HierarchicalCache
        from cloudsync import FILE, DIRECTORY
        _env.update(HC=HierarchicalCache, FILE=FILE, DIR=DIRECTORY,
                    prov={"cs": MockProvider(oid_is_path=False, case_sensitive=True),
                          "ci": MockProvider(oid_is_path=False, case_sensitive=False)})
        for mode, m in MODES.items():
            paths = [[x] for x in m["names"]] + [[x, y] for x in m["names"] for y in m["names"]]
            _env["paths_" + mode] = [(p, "/" + "/".join(p)) for p in paths]
    return _env


def _oid(x):
    if x is None:
        return 0
    if isinstance(x, str) and x.isdigit() and 1 <= int(x) <= 9:
        return int(x)
    return 95 if x == ROOT_OID else 97


def _meta(x):
    if x is None:
        return 9
    if x == {}:
        return 0
    if isinstance(x, dict) and list(x) == ["k"] and x["k"] in (1, 2):
        return x["k"]
    return 8


def _path(s):
    """'/a/b' -> (1, ['a','b']); None -> (0, [])"""
    if s is None:
        return 0, []
    if not isinstance(s, str):
        return 1, ["?"]
    return 1, [x for x in s.split("/") if x]


def _m(v):
    return {"k": v} if v else {}


def apply_call(env, cache, c):
    op, sp, i = c["op"], "/" + "/".join(c["p"]), (str(c["i"]) if c["i"] else None)
    ty = {1: env["FILE"], 2: env["DIR"]}.get(c["t"])
    if op == "create":
        cache.create(sp, i)
    elif op == "mkdir":
        cache.mkdir(sp, i)
    elif op == "rename":
        cache.rename(sp, "/" + "/".join(c["q"]))
    elif op == "delete_path":
        cache.delete(path=sp)
    elif op == "delete_oid":
        cache.delete(oid=i)
    elif op == "set_oid":
        cache.set_oid(sp, i, ty)
    elif op == "update":
        cache.update(sp, ty, i, _m(c["m"]), keep=bool(c["k"]))
    elif op == "set_meta_path":
        cache.set_metadata(_m(c["m"]), path=sp)
    elif op == "set_meta_oid":
        cache.set_metadata(_m(c["m"]), oid=i)
    else:
        raise MachineryError("unknown op %r" % op)


def observe(env, cache, mode):
    FILE, DIR = env["FILE"], env["DIR"]

    def ty(x):
        return 0 if x is None else 1 if x == FILE else 2 if x == DIR else 7

    def guard(f, bad):
        try:
            return f()
        except Exception:            # a getter that raises: recorded as an impossible value, judged by TLC
            return bad

    # structural walk
    T, at, seen, cy = [], {}, set(), [0]

    def rec(node, path, depth):
        for key, ch in list(node.children.items()):
            if id(ch) in seen or depth > 5:
                cy[0] = 1
                continue
            seen.add(id(ch))
            p = path + [key]
            ok = 1 if (ch.name == key and ch.parent is node) else 0
            T.append([p, _oid(ch.oid), ty(ch.type), _meta(ch.metadata), ok])
            at[tuple(p)] = ch
            rec(ch, p, depth + 1)
    rec(cache._root, [], 0)
    I = []
    for key, nd in list(cache._oid_to_node.items()):
        if nd is cache._root and key == cache._root.oid:
            continue
        f, p = guard(lambda: _path(nd.full_path()), (0, []))
        I.append([_oid(key), f, p, 1 if (f and at.get(tuple(p)) is nd) else 0, _oid(nd.oid)])
    P = []
    for p, sp in env["paths_" + mode]:
        o = guard(lambda: cache.get_oid(sp), "?")
        rf, rp = guard(lambda: _path(cache.get_path(o)), (0, ["?"])) if o not in (None, "?") else (0, [])
        P.append([p, _oid(o), guard(lambda: ty(cache.get_type(path=sp)), 98),
                  guard(lambda: _meta(cache.get_metadata(path=sp)), 98),
                  guard(lambda: sorted(str(x) for x in cache.listdir(path=sp)), ["?"]), rf, rp])
    D = []
    for i in IDS:
        so = str(i)
        s = guard(lambda: cache.get_path(so), 98)
        f, p = (1, ["?"]) if s == 98 else _path(s)
        rto = _oid(guard(lambda: cache.get_oid(s), "?")) if f and s != 98 else 0
        D.append([i, f, p, rto, guard(lambda: ty(cache.get_type(oid=so)), 98),
                  guard(lambda: _meta(cache.get_metadata(oid=so)), 98),
                  guard(lambda: sorted(str(x) for x in cache.listdir(oid=so)), ["?"])])
    W = guard(lambda: [_path(x)[1] for x in cache.walk()], [["?"]])
    return {"T": T, "I": I, "P": P, "D": D, "W": W, "cy": cy[0]}


def execute(hist, mode, judge_from=0):
    """Run one history on a fresh cache.  Lines before judge_from only carry the call (their observation was
    judged as the last line of a shorter history of the same family)."""
    env = _setup()
    cache = env["HC"](env["prov"][mode], ROOT_OID, metadata_template={"k": int})
    tr = []
    for n, c in enumerate(hist):
        call = {k: c[k] for k in ("op", "p", "q", "i", "t", "m", "k")}
        ev = {"c": call, "j": 0, "x": 0}
        try:
            apply_call(env, cache, call)
        except MachineryError:
            raise
        except Exception as e:       # recorded; TLC reports it under the clause NoException
            ev["x"] = 1
            ev["xt"] = type(e).__name__
        if n >= judge_from:
            ev["j"] = 1
            ev.update(observe(env, cache, mode))
        tr.append(ev)
    return tr


def _exec_chunk(args):
    mode, items = args
    return [execute(h, mode, jf) for h, jf in items]


# ------------------------------------------------------------------------------------------------------
class _Sub:
    """The view of the run context tracecheck.validate needs, with a scratch directory of its own (the trace files
    of two concurrent validations must not collide)."""

    def __init__(self, ctx, name):
        self.scratch = os.path.join(ctx.scratch, name)
        os.makedirs(self.scratch, exist_ok=True)
        self.workers, self.tlc_runs, self.cov = ctx.workers, ctx.tlc_runs, ctx.cov


_vcount = [0]


def validate(ctx, mode, traces, what, slot=0):
    """TLC judges (thread-safe part): returns the raw (trace index, line, [clause, tags]) triples."""
    _vcount[0] += 1
    sub = _Sub(ctx, "val_%d" % _vcount[0])
    try:
        viols, _ = tc.validate(sub, "Trace_HCache", trace_cfg(ctx, mode), traces, what, min_batch=3000)
    finally:
        import shutil
        shutil.rmtree(sub.scratch, ignore_errors=True)
    return viols


def attribute(ctx, mode, traces, hists, viols, what, stats=None):
    """Every reported clause becomes a signature (clause, tags of the failing call, op, exception type, case mode)
    which is either a listed finding or a violation."""
    for ti, line, (clause, tags) in viols:
        ev = traces[ti][line - 1]
        if clause == "HARNESS":
            raise MachineryError("trace spec rejected the harness' observation / call at %s line %d: %s"
                                 % (what, line, json.dumps(ev["c"])))
        gtags = hists[ti][line - 1].get("tags")
        if gtags is not None and sorted(gtags) != sorted(tags):
            raise MachineryError("generator tags %s != trace tags %s (%s)" % (gtags, tags, json.dumps(hists[ti])))
        sig = {"clause": clause, "tags": sorted(tags), "op": ev["c"]["op"], "exc_type": ev.get("xt", ""),
               "case_mode": mode}
        calls = [{k: c[k] for k in ("op", "p", "q", "i", "t", "m", "k")} for c in hists[ti][:line]]
        fid = ctx.report(sig, {"history": calls, "line": line, "mode": mode,
                               "observed": {k: ev.get(k) for k in ("x", "xt", "T", "I", "W")}},
                         replay={"mode": mode, "history": calls})
        if stats is not None:
            stats[(clause, ",".join(sorted(tags)) or "-", ev["c"]["op"], ev.get("xt", ""), mode, fid or "UNLISTED")] += 1
    return viols


def judge(ctx, mode, traces, hists, what, stats=None):
    return attribute(ctx, mode, traces, hists, validate(ctx, mode, traces, what), what, stats)


def tally(stats, mode, hists, last_only):
    """Stratum statistics of the judged lines, from the tags the generator attached to every call."""
    for h in hists:
        for c in h[(len(h) - 1) if last_only else 0:]:
            stats[("lines", mode, "clean" if not c.get("tags") else "tagged")] += 1
            stats[("hazardfree", mode, "yes" if not set(c.get("tags", [])) & set(HAZARDS) else "no")] += 1
            for t in c.get("tags", []):
                stats[("tag", mode, t)] += 1
        stats[("histories", mode, "clean" if not any(c.get("tags") for c in h) else "tagged")] += 1


def execute_all(ctx, pool, mode, hists, last_only, stats=None):
    """Execute the histories of one family in the worker processes; returns the traces (same order)."""
    items = [(h, (len(h) - 1) if last_only else 0) for h in hists]
    step = max(20, len(items) // (4 * ctx.workers) + 1)
    jobs = [(mode, items[k:k + step]) for k in range(0, len(items), step)]
    traces = [t for trs in pool.map(_exec_chunk, jobs) for t in trs]
    ctx.count(evaluations=sum(1 for t in traces for e in t if e["j"]))
    if stats is not None:
        tally(stats, mode, hists, last_only)
    return traces


def run_family(ctx, mode, hists, what, last_only=False, stats=None):
    """One family on its own (used by the tools around the check)."""
    import multiprocessing
    _setup()
    with multiprocessing.get_context("fork").Pool(ctx.workers) as pool:
        traces = execute_all(ctx, pool, mode, hists, last_only, stats)
    judge(ctx, mode, traces, hists, what, stats)
    return traces


def generate(ctx, name, mode, maxlen, gmode, what, simulate=None, seed=0, **kw):
    cfg = gen_cfg(ctx, name, mode, maxlen, gmode, **kw)
    extra = ["-seed", str(seed)] if simulate else []
    res = ctx.tlc("Gen_HCache", cfg, what=what, workers=1, simulate=simulate, depth=(maxlen + 2) if simulate else None,
                  extra=extra, heap="3g", timeout=3000)
    if res.error or (res.rc != 0 and not simulate):
        raise MachineryError("generator %s failed (rc=%s)\n%s" % (name, res.rc, res.tail(30)))
    hs = tc.parse_histories(res)
    if not hs:
        raise MachineryError("generator %s produced nothing\n%s" % (name, res.tail(30)))
    return hs


def uniq(hs):
    seen, out = set(), []
    for h in hs:
        k = json.dumps(h, sort_keys=True)
        if k not in seen:
            seen.add(k)
            out.append(h)
    return out


def families(tier, seed):
    """(name, mode, kind, maxlen, keyword arguments of the generator).  The exhaustive families do not depend on
    the seed; the seed only seeds tlc -simulate."""
    q = tier == "quick"
    fams = [
        # every (hazard-free-reachable state, call): structure alphabet, prefixes of up to 2 calls
        ("graph3_cs", "cs", "graph", 3, dict(metas=(0,), ops=STRUCT_OPS)),
        # the same with the metadata calls, prefixes of 1 call (2 in the thorough tier)
        ("graphm_cs", "cs", "graph", 2 if q else 3, dict(metas=(0, 1), ops=ALL_OPS)),
        # case-insensitive provider with a case variant of one name
        ("graph_ci", "ci", "graph", 2 if q else 3, dict(metas=(0,), ops=STRUCT_OPS)),
        # long random sequences: any call / only calls without a hazard tag (every line of those must pass)
        ("sim_cs", "cs", "sim", 8 if q else 12, dict(metas=(0, 1, 2), simulate="num=%d" % (40 if q else 1000), seed=4 * seed + 1)),
        ("sim_ci", "ci", "sim", 8 if q else 12, dict(metas=(0, 1, 2), simulate="num=%d" % (40 if q else 1000), seed=4 * seed + 2)),
        ("simclean_cs", "cs", "simclean", 10 if q else 16, dict(metas=(0, 1, 2), simulate="num=%d" % (40 if q else 1000), seed=4 * seed + 3)),
        ("simclean_ci", "ci", "simclean", 10 if q else 16, dict(metas=(0, 1, 2), simulate="num=%d" % (40 if q else 1000), seed=4 * seed + 4)),
    ]
    if not q:
        fams += [
            # every call sequence of length 2 (canonical), full alphabet, both providers: all lines judged
            ("seq2_cs", "cs", "seq", 2, dict(metas=(0, 1), ops=ALL_OPS)),
            ("seq2_ci", "ci", "seq", 2, dict(metas=(0,), ops=STRUCT_OPS)),
            # prefixes of up to 3 calls over two ids
            ("graph4_cs", "cs", "graph", 4, dict(metas=(0,), ops=STRUCT_OPS, ids=[1, 2])),
        ]
    return fams


def run(ctx):
    quick = ctx.tier == "quick"
    stats = Counter()
    ctx.extra["rule"] = (
        "histories are enumerated by TLC from Gen_HCache.tla over names {a,b} (+A on the case-insensitive provider), "
        "depth 2, ids {1,2,3}: (graph) one shortest hazard-free history per distinct (reference state, call) - every state "
        "reachable by prefixes of the stated length x every call; (seq) every call sequence of length 2, canonical up to "
        "renaming of ids/names; (sim) tlc -simulate sequences. evaluations = judged lines (a call executed on the real "
        "cache followed by the full observation, judged by TLC); distinct non-trivial = distinct (mode, history) of the "
        "exhaustive families whose last call is not a pure metadata call")
    ctx.assume("the cache is driven through its public API with a MockProvider (oid_is_path=False) for the path helpers; "
               "ids are the strings '1'..'3', the root id is 'root' and is never passed to a call",
               "metadata is one integer key; callers pass a fresh dictionary on every call",
               "single-threaded use (the class has no locking)",
               "graph families judge the last call of each history; its prefix is itself a member of the family")

    import multiprocessing
    import time
    _setup()                         # import the repository once, then fork the executors before any thread exists
    xpool = multiprocessing.get_context("fork").Pool(ctx.workers)
    pool = ThreadPoolExecutor(max_workers=ctx.workers)
    # design level: the reference dictionary itself is coherent for every call sequence (whole reachable graph)
    what = "design: Coherent, RoundTrip and the step properties for every call in every reachable state; "
    mcs = [pool.submit(ctx.model_check, "HCache", cfg, what + w, coverage=False, workers=2 if quick else 6)
           for cfg, w in ([("MC_HCache_q.cfg", "cs, names {a,b}, ids {1,2}"),
                           ("MC_HCache_meta.cfg", "metadata: one name, ids {1,2}, values {0,1}")] +
                          ([] if quick else [("MC_HCache.cfg", "cs, names {a,b}, ids {1,2,3}"),
                                             ("MC_HCache_ci.cfg", "ci, names {a,b,A}, ids {1,2,3}")]))]
    futs = {}
    for name, mode, kind, L, kw in families(ctx.tier, ctx.seed):
        if kind == "graph":
            futs[(name, mode, kind)] = [pool.submit(generate, ctx, "%s_%d" % (name, n), mode, L, kind,
                                                    "%s: states reached by < %d calls x calls %s" % (name, L, ",".join(part)),
                                                    last=part, **kw) for n, part in enumerate(PARTS)]
        else:
            futs[(name, mode, kind)] = [pool.submit(generate, ctx, name, mode, L, kind, name, **kw)]

    sizes, nontrivial, phases, t0 = {}, 0, {}, time.time()
    UNIT = 30000                                         # traces per validation unit (bounds memory; ~10 JVMs each)
    buf = {"cs": [], "ci": []}                           # mode -> [(history, judge_from, exemplar finding id or None)]
    inflight = []                                        # [(future, mode, traces, histories, exemplar ids, label)]

    def collect(block):
        while inflight and (block or inflight[0][0].done() or len(inflight) >= 2):
            fut, mode, traces, hists, exids, label = inflight.pop(0)
            viols = attribute(ctx, mode, traces, hists, fut.result(), label, stats)
            failing = {ti for ti, _, _ in viols}
            for ti, fid in exids.items():
                if ti not in failing:
                    ctx.extra.setdefault("exemplars_no_longer_failing", []).append(fid)

    def flush(mode, label):
        items, buf[mode] = buf[mode], []
        if not items:
            return
        collect(False)
        step = max(20, len(items) // (4 * ctx.workers) + 1)
        jobs = [(mode, [(h, jf) for h, jf, _ in items[k:k + step]]) for k in range(0, len(items), step)]
        traces = [t for trs in xpool.map(_exec_chunk, jobs) for t in trs]
        ctx.count(evaluations=sum(1 for t in traces for e in t if e["j"]))
        hists = [h for h, _, _ in items]
        exids = {n: fid for n, (_, _, fid) in enumerate(items) if fid}
        inflight.append((pool.submit(validate, ctx, mode, traces, "%s (%s)" % (label, mode), len(inflight)),
                         mode, traces, hists, exids, label))

    try:
        for f in ctx.findings:                           # known-finding exemplars are re-executed on every run
            ex = f.get("exemplar")
            if ex:
                buf[ex["mode"]].append((ex["history"], 0, f["id"]))
        for (name, mode, kind), fs in futs.items():
            hs = uniq([h for f in fs for h in f.result()])
            sizes[name] = len(hs)
            if not kind.startswith("sim") and len(hs) < 1000:
                raise MachineryError("family %s has only %d histories" % (name, len(hs)))
            tally(stats, mode, hs, kind == "graph")
            ctx.sample({"family": name, "mode": mode, "history": hs[len(hs) // 2]})
            if not kind.startswith("sim"):
                nontrivial += sum(1 for h in hs if h[-1]["op"] not in ("set_meta_path", "set_meta_oid"))
            for h in hs:
                buf[mode].append((h, (len(h) - 1) if kind == "graph" else 0, None))
                if len(buf[mode]) >= UNIT:
                    flush(mode, name)
            phases[name + "_generated_at"] = round(time.time() - t0, 1)
        for mode in buf:
            flush(mode, "remaining families")
        collect(True)
    finally:
        xpool.terminate()
    phases["validated_at"] = round(time.time() - t0, 1)
    for m in mcs:
        m.result()
    pool.shutdown()
    ctx.cov["exhaustive"] = True
    ctx.count(nontrivial=nontrivial)
    ctx.extra["families"] = sizes
    ctx.extra["phases_wall_s"] = phases
    ctx.extra["strata"] = {"%s_%s_%s" % k: v for k, v in sorted(stats.items()) if k[0] in ("lines", "hazardfree", "histories")}
    ctx.extra["tag_counts"] = {"%s_%s" % k[1:]: v for k, v in sorted(stats.items()) if k[0] == "tag"}
    ctx.extra["failure_signatures"] = {"|".join(k): v for k, v in sorted(stats.items()) if len(k) == 6}


def replay(ctx, rep):
    case = rep["case"]
    tr = execute(case["history"], case["mode"])
    judge(ctx, case["mode"], [tr], [case["history"]], "replay")
    ctx.count(evaluations=len(tr), nontrivial=1)
    ctx.sample(case)


if __name__ == "__main__":
    main("C19", run, replay)

"""
C06 - restart resumes from persisted state; offline changes are synchronised.

Families (Gen_Sys.tla with the stop/restart schedule tokens): every non-conflicting history of n user operations in which
the engine is stopped at a step boundary (right after an operation, after intake only, or mid-sync with pending entries),
zero or more operations are made while it is down, and a NEW engine is started over the same storage object and the same
two accounts - with the storage intact, with the stored cursors removed, or with cursors the provider rejects.  Judged by
Trace_Sys.tla at quiet:
  AsExpected    intact storage: both trees are exactly base + all changes (before the stop and while down);
                cursor removed / rejected (full-walk fallback): every created or modified file or folder is on both sides
                (deletions made meanwhile are not promised by a walk and are not demanded)
  NoArtefacts   nothing was flagged as a conflict or duplicated
  Productive    no already synchronised file is transferred again (an upload of the bytes the target already holds)
  Converged / ReachesQuiet / NoEscape
A resumed cursor that skipped an event not yet reflected in storage shows as a change that never reaches the other side.
"""
from ..runner import main
from .. import syscheck as sc

CLAUSES = {"AsExpected", "NoArtefacts", "Productive", "Converged", "ReachesQuiet", "NoEscape", "StaysQuiet", "NoLoss"}
GAPS = ["I", "IS", "X", "IX", "ISX", "R", "Rrm", "Rrej", "PX"]


def has_restart(c):
    return any(t[0] == "X" for t in c["tokens"])


def xsig(case, trace, line):
    v = [t[1] for t in case["tokens"] if t[0] == "R"]
    return {"variant": v[-1] if v else "none",
            "stop": "mid" if any(e["ev"] == "Stop" for e in trace) else "none"}


def accept(case, clause):
    """With the cursor removed or rejected the engine falls back to a full walk, which does not promise deletions: only
    'everything created or modified reached the other side' (AsExpected in its covering form) and loss-freedom are demanded."""
    walked = any(t[0] == "R" and t[1] != "intact" for t in case["tokens"])
    return not (walked and clause in ("Converged", "StaysQuiet", "Productive", "NoArtefacts"))


def run(ctx):
    ctx.extra["rule"] = ("every non-conflicting history of n operations with a stop at a step boundary, operations while down and a "
                         "restart (intact / cursor removed / cursor rejected), TLC-enumerated by Gen_Sys.tla, x flavours; non-trivial "
                         "= at least one effective engine write")
    ctx.assume("restart = CloudSync.done() then a new CloudSync over the same storage object and provider objects",
               "storage backend: the MockStorage fixture behind a counting wrapper (known fixture findings of C09 apply)",
               "MockProvider flavours are the environment; virtual clock; ageing 0")
    ctx.model_check("SysMC", "MC_SysMC.cfg", "design: contract guards", workers=4)
    sc.run_exemplars(ctx, CLAUSES, extra_sig=xsig, accept=accept)
    quick = ctx.tier == "quick"
    flavors = ["oid/oid", "path/oidf"] if quick else ["oid/oid", "path/oidf", "oidf/path", "path/path"]
    fams = [("rs_one2", [1], 2, None, 700 if quick else None), ("rs_oneR2", [2], 2, None, 400 if quick else None),
            ("rs_two2", [1, 2], 2, None, 700 if quick else None)]
    if quick:
        fams.append(("rs_one4", [1, 2], 4, "sim", 400))
    else:
        fams += [("rs_one3", [1], 3, None, 6000), ("rs_two3", [1, 2], 3, None, 6000), ("rs_sim5", [1, 2], 5, "sim", 2000)]
    # sessions in which a side delivers no event at all before the stop (empty account: nothing to report in session 1):
    # the cursor adopted at first start must be the one a later session resumes from
    fams.append(("rs_silent2", [1, 2], 2, "empty", 500 if quick else None))
    exhaustive = True
    for name, sides, nops, mode, limit in fams:
        if mode == "empty":
            cases = sc.generate(ctx, name, sides, nops, GAPS, "empty", filt="disjoint")
        elif mode == "sim":
            cases = sc.generate(ctx, name, sides, nops, GAPS, "std", filt="cleandisjoint", simulate=(60, ctx.seed + 9))
            exhaustive = False
        else:
            cases = sc.generate(ctx, name, sides, nops, GAPS, "std", filt="disjoint")
        cases = [c for c in cases if has_restart(c)]
        ctx.extra.setdefault("family_sizes", {})[name] = len(cases)
        cases, full = sc.slice_cases(cases, limit, ctx.seed * 122949829 + nops)
        exhaustive = exhaustive and full
        if name in ("rs_one2", "rs_oneR2", "rs_two2"):
            # the same behaviours on accounts that already held identical trees when the engine first started: neither provider
            # reports anything in the first session, the cursors a later session resumes from are the ones adopted at first start
            pre, _ = sc.slice_cases(cases, 300 if quick else 3000, key=name + "_pre")
            cases = cases + [dict(c, base_side=2, family=name + "_pre") for c in pre]
        sc.run_family(ctx, sc.with_flavors(cases, flavors), "restart family %s" % name, CLAUSES, extra_sig=xsig, accept=accept)
    ctx.cov["exhaustive"] = exhaustive


def replay(ctx, rep):
    sc.replay_case(ctx, rep, CLAUSES, extra_sig=xsig, accept=accept)


if __name__ == "__main__":
    main("C06", run, replay, level="fault_enumeration")

"""
C15 - thread safety: sync state only touched under its lock; threaded runs converge.

The engine runs as in production (cs.start(): sync thread, one event thread per side, notification thread) in real time with a
randomised interpreter switch interval, while two user threads create files and folders on both sides (TLC-generated,
footprint-disjoint create histories, so the expected quiet tree is known) and an application thread calls public methods
(busy, change_count, walk; in on-demand mode also the smart_* calls).  Recorded and judged by Trace_Sys.tla:
  LockOwned     every call into the state's mutation funnel (SyncState.updated) is made by a thread that owns the state lock -
                a deterministic observation per (thread, call site, field), not a timing one
  StepAtomic    the state lock is an observed object: inside one entry synchronisation (SyncManager._sync_one_entry), one event
                application (EventManager._process_event) or one on-demand request (SmartCloudSync._smart_sync_ent) the lock is
                never fully released and taken again - each of those is ONE critical section (again per call site, not timing)
  AsExpected / Converged / NoLoss / NoArtefacts / ReachesQuiet   the threaded run ends like the sequential ones
A real-time timeout before quiet is retried sequentially (same history, stepped deterministically) before it counts.
"""
import json
import multiprocessing

from ..core import MachineryError
from ..runner import main
from .. import syscheck as sc
from .. import sysfam, thrdrv
from .. import tracecheck as tc

CLAUSES = {"LockOwned", "StepAtomic", "AsExpected", "Converged", "NoLoss", "NoArtefacts", "ReachesQuiet"}


def histories(ctx, n, seed, count):
    """create-only histories over both sides with disjoint footprints (TLC-generated, then filtered)"""
    cases = sc.generate(ctx, "thr%d" % n, [1, 2], n, ["I"], "empty", filt="disjoint")
    cases, _ = sc.slice_cases(cases, 4000, key="thr")
    out = []
    for c in cases:
        ops = [t for t in c["tokens"] if t[0] == "U"]
        if all(t[2][0] in ("create", "mkdir") for t in ops) and {t[1] for t in ops} == {0, 1}:
            out.append([[t[2] for t in ops if t[1] == 0], [t[2] for t in ops if t[1] == 1]])
    uniq = []
    for o in out:
        if o not in uniq:
            uniq.append(o)
    return uniq[:count]


def run(ctx):
    ctx.extra["rule"] = ("threaded real-time runs: TLC-generated create-only two-sided histories x flavours x seeds (switch interval, "
                         "jitter); distinct = distinct (flavour, history, seed); every run is non-trivial (the engine must copy files "
                         "both ways); LockOwned is evaluated per distinct (thread, call site, field) observed")
    ctx.assume("thread interleavings are whatever the OS produced in this run (sampled, not enumerated)",
               "lock ownership is observed through RLock._is_owned() inside a SyncState subclass; writes that bypass "
               "SyncState.updated (private attribute writes) are not observed",
               "real time; MockProvider flavours; MockStorage")
    quick = ctx.tier == "quick"
    flavors = ["oid/oid", "path/oidf"] if quick else ["oid/oid", "path/oidf", "oidf/path", "path/path"]
    hs = histories(ctx, 3, ctx.seed + 1, 12 if quick else 60)
    if len(hs) < 3:
        raise MachineryError("too few threaded histories generated: %d" % len(hs))
    cases = []
    for fl in flavors:
        for i, h in enumerate(hs):
            for rep in range(2 if quick else 4):
                cases.append({"flavor": fl, "ops": h, "seed": ctx.seed * 1000 + i * 10 + rep, "base": "empty"})
    # on-demand engine: the same histories with an application thread touring the smart_* public methods
    for fl in flavors[:2]:
        for i, h in enumerate(hs[:6 if quick else 30]):
            cases.append({"flavor": fl, "ops": h, "seed": ctx.seed * 1000 + i * 10 + 7, "base": "empty", "smart": True,
                          "app_calls": ["busy", "change_count", "smart_listdir", "smart_sync", "smart_unsync"]})
    with multiprocessing.get_context("fork").Pool(min(ctx.workers, 8)) as pool:
        res = pool.map(thrdrv.execute, cases, chunksize=1)
    traces = []
    for c, (tr, err) in zip(cases, res):
        if err:
            raise MachineryError("threaded driver failed on %r:\n%s" % (c, err))
        traces.append(tr)
    # a real-time timeout is retried sequentially before it counts
    for i, tr in enumerate(traces):
        if tr[-1]["ev"] == "NoQuiet":
            toks = [["U", s, op] for s in (0, 1) for op in cases[i]["ops"][s]] + [["Q"]]
            seq = sysfam.run_cases(ctx, [{"flavor": cases[i]["flavor"], "base": "empty", "tokens": toks}])[0]
            ctx.extra["timeouts_retried"] = ctx.extra.get("timeouts_retried", 0) + 1
            if seq[-1]["ev"] == "Quiet":
                tr[-1] = dict(tr[-1], ev="Note")
    viols, done, nonconf = tc.validate(ctx, "Trace_Sys", "Trace_Sys.cfg", traces, "threaded runs", extended=True, min_batch=500)
    for ti, line, clause, rest in viols:
        if clause not in CLAUSES:
            continue
        ev = traces[ti][line - 1]
        sig = {"clause": clause, "flavor": cases[ti]["flavor"], "smart": bool(cases[ti].get("smart"))}
        if clause in ("LockOwned", "StepAtomic"):
            sig.update(site=ev["site"], key=ev["key"], thread=ev["thread"])
        ctx.report(sig, {"case": cases[ti], "event": {k: v for k, v in ev.items() if k != "post"}}, replay=cases[ti])
    sites = {(e["thread"], e["site"], e["key"]) for t in traces for e in t if e["ev"] == "Prim"}
    ctx.extra["mutation_sites_observed"] = len(sites)
    ctx.extra["mutations_observed"] = sum(e["count"] for t in traces for e in t if e["ev"] == "Prim")
    ctx.count(evaluations=len(cases), nontrivial=len({json.dumps([c["flavor"], c["ops"], c["seed"]]) for c in cases}))
    ctx.sample({"flavor": cases[0]["flavor"], "ops": cases[0]["ops"], "seed": cases[0]["seed"]})


def replay(ctx, rep):
    raise MachineryError("threaded runs are not deterministic; re-run the check (the LockOwned clause is per call site)")


if __name__ == "__main__":
    main("C15", run, replay, level="exploration")

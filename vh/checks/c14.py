"""
C14 - events are hints: duplicated, delayed, reordered, replayed events change nothing.

Every behaviour of a TLC-generated family (one-sided and two-sided histories with schedule tokens) is executed TWICE with the
same user history and the same sync-step schedule: with prompt in-order event delivery (run A) and with a mangled event
stream (run B): every event duplicated; the whole stream so far replayed before new events; a full walk of the root queued
before every intake; per-event batching (each batch split into single-event deliveries); for id-stable providers also batches
reversed, the first event of each batch delayed to the next delivery, and path fields dropped; plus injected events that
carry no id or name an object that does not exist.  Trace_Sys.tla judges run B against run A (paired trace):
  SameQuietTrees        the quiet-state trees are identical
  NoSpuriousTransfers   the bag of effective engine creates / uploads / deletes / renames of B is contained in A's
  NoExtraConflicted     no '.conflicted' artefact that A lacks
"""
from ..runner import main
from .. import syscheck as sc

CLAUSES = {"SameQuietTrees", "NoSpuriousTransfers", "NoExtraConflicted"}
GAPS = ["I", "IS", "ISS", "Q"]
ANY = ["dup", "replay", "walk", "ghosts"]
STABLE = ["reverse", "delay", "droppath"]          # only where object ids are stable (not path-style sides)


def manglings(case):
    fl = case["flavor"].split("/")
    out = [[m, [0, 1]] for m in ANY]
    stable_sides = [i for i in (0, 1) if fl[i].startswith("oid")]
    for m in STABLE:
        if m == "droppath":
            sides = [i for i in stable_sides if not fl[i].endswith("f")]     # filtered flavours need the path by contract
        else:
            sides = stable_sides
        if sides:
            out.append([m, sides])
    return out


def split_batches(tokens):
    """per-event batching: every unlimited intake becomes four single-event intakes"""
    out = []
    for t in tokens:
        if t[0] in ("EL", "ER") and t[1] == 0:
            out += [[t[0], 1]] * 4
        else:
            out.append(t)
    return out


def cross_reuse(case):
    """site of the listed finding C14-REPLAY-AFTER-PATH-REUSE: a path vacated by one operation (rename away / delete) is occupied
    again by a later one (possibly in a later, already synchronised window - the per-window hazard tags do not see that)"""
    ops = [t[2] for t in case["tokens"] if t[0] == "U"]
    for i, op in enumerate(ops):
        if op[0] in ("rename", "delete", "rmdir"):
            p = op[1]
            if any((o[0] in ("create", "mkdir") and o[1] == p) or (o[0] == "rename" and o[2] == p) for o in ops[i + 1:]):
                return True
    return False


def xsig(case, trace, line):
    return {"mangle": case["mangle"][0], "cross_reuse": cross_reuse(case)}


def run(ctx):
    ctx.extra["rule"] = ("every behaviour of the TLC-generated families x every mangling applicable to the flavour, executed as a pair "
                         "(prompt vs mangled delivery, same history, same sync schedule); distinct = distinct (flavour, behaviour, "
                         "mangling); non-trivial = run A made at least one effective engine write")
    ctx.assume("MockProvider flavours are the environment; mangling wraps the provider's events() generator",
               "delay/permutation/path dropping only on sides whose object ids are stable, as the property states",
               "virtual clock; ageing 0")
    ctx.model_check("SysMC", "MC_SysMC.cfg", "design: contract guards", workers=4)
    sc.run_exemplars(ctx, CLAUSES, extra_sig=xsig)
    quick = ctx.tier == "quick"
    flavors = ["oid/oid", "path/oidf"] if quick else ["oid/oid", "path/oidf", "oidf/path", "path/path"]
    fams = [("m_one2", [1], 2, None, 120 if quick else None), ("m_two2", [1, 2], 2, None, 120 if quick else 1500)]
    if not quick:
        fams += [("m_oneR2", [2], 2, None, None), ("m_one3", [1], 3, None, 1500)]
    for name, sides, nops, mode, limit in fams:
        # non-conflicting histories only: for conflicting ones the outcome legitimately depends on what the engine saw when
        cases = sc.generate(ctx, name, sides, nops, GAPS, "std", filt="disjoint")
        cases, full = sc.slice_cases(cases, limit, ctx.seed * 160481183 + nops)
        allc = []
        for c in sc.with_flavors(cases, flavors):
            for m in manglings(c):
                allc.append(dict(c, mangle=m))
            allc.append(dict(c, tokens=c["tokens"], mangle=["split", []], _split=True))
        sc.run_family(ctx, allc, "paired runs %s" % name, CLAUSES, extra_sig=xsig)


def replay(ctx, rep):
    sc.replay_case(ctx, rep, CLAUSES, extra_sig=xsig)


if __name__ == "__main__":
    main("C14", run, replay)

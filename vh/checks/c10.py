"""
C10 - transient provider faults: survive, report, retry, still converge.

For every behaviour of a base family (one-sided histories of n operations and disjoint two-sided ones, TLC-generated) a
golden run counts the engine's provider API calls N; then one run per (call index k <= N, fault kind) makes exactly that
call raise: CloudTemporaryError, CloudDisconnectedError (with a real disconnect()), CloudTokenError, CloudOutOfSpaceError.
Pairs of faults are sampled.  Judged by Trace_Sys.tla:
  FaultNotified   a temporary / disconnected / out-of-space condition is reported by a notification of the matching kind
                  before the service step that met it ends
  Converged, NoLoss, ReachesQuiet   after the faults stop the sides converge with no user content lost
  AsExpected      ... to exactly the expected tree (these histories are non-conflicting)
(the loops' survival of arbitrary exceptions is the Runnable property, C18)
"A file that keeps failing is reported and set aside without stopping other files, and is synchronised once it stops
failing": the `stuck` family makes every engine write to ONE path on the receiving side raise a temporary error ("locked")
for 30 fair rounds (token P), then reports progress (OthersNotStarved: by then the two sides differ at that path and below
it only; FaultNotified at every step that met the error), then lets it succeed (Unstick) and runs to quiet (Converged,
AsExpected).  Histories: hazard-free one-sided histories of 2 operations, the stuck path is the target of a create / write /
mkdir of the history.
"""
import random

from ..core import MachineryError
from ..runner import main
from .. import syscheck as sc
from .. import sysfam

CLAUSES = {"FaultNotified", "Converged", "NoLoss", "ReachesQuiet", "AsExpected", "NoArtefacts", "LastCopy", "OthersNotStarved"}
GAPS = ["I", "IS"]
KINDS = [4, 5, 6, 7]      # temporary, disconnected, token, out of space (sysdrv result codes)
NEVER = 10 ** 8


def xsig(case, trace, line):
    ft = [e for e in trace[:line] if e["ev"] == "Fault"]
    esc = any(e["ev"] == "Escape" for e in trace[:line])
    return {"kind": case.get("fkind", 0), "call": ft[-1]["call"] if ft else "", "escaped": esc,
            "mgr": ([e["mgr"] for e in trace[:line] if e["ev"] == "StepBegin"] or [""])[-1]}


def stuck_cases(ctx, flavors, limit):
    base = sc.generate(ctx, "s_one", [1], 2, ["I", "IS"], "std", filt="clean") + sc.generate(ctx, "s_oneR", [2], 2, ["I", "IS"], "std", filt="clean")
    out = []
    for c in base:
        ops = [t for t in c["tokens"] if t[0] == "U"]
        body = [t for t in c["tokens"] if t[0] not in ("Q", "AQ")]
        seen = set()
        for t in ops:
            sp = t[2][1]
            under = lambda q: q[:len(sp)] == sp
            # a move across the boundary of the stuck subtree depends on the stuck path: not an "other file"
            crossing = any(o[2][0] == "rename" and under(o[2][1]) != under(o[2][2]) for o in ops)
            if t[2][0] in ("create", "write", "mkdir") and tuple(t[2][1]) not in seen and not crossing:
                seen.add(tuple(t[2][1]))
                out.append(dict(c, family="stuck", kase={"kind": "c10s", "stuck": t[2][1]},
                                tokens=[["P", 1 - t[1], t[2][1]]] + body + [["Prog", 30], ["Unstick"], ["Q"], ["AQ"]]))
    out, _ = sc.slice_cases(out, limit, key="stuck")
    return sc.with_flavors(out, flavors)


def walk_case(c):
    """only creating operations, at least one while the engine is down, then a restart with the cursor removed"""
    toks = c["tokens"]
    if not any(t[0] == "R" and t[1] == "cursorRemoved" for t in toks) or sum(1 for t in toks if t[0] == "X") != 1:
        return False
    down, n = False, 0
    for t in toks:
        if t[0] == "X":
            down = True
        elif t[0] == "R":
            down = False
        elif t[0] == "U":
            # every operation must be one a walk can discover (an operation made just before the stop may not have been
            # taken in yet either)
            if t[2][0] not in ("create", "write", "mkdir"):
                return False
            n += 1 if down else 0
    return n >= 1


def run(ctx):
    ctx.extra["rule"] = ("base behaviours (TLC-generated one-sided and disjoint two-sided histories) x every engine provider call "
                         "index of the golden run x 4 fault kinds (single faults exhaustively for the chosen base behaviours, pairs "
                         "sampled); distinct = distinct (flavour, behaviour, k, kind); non-trivial = the fault fired")
    ctx.assume("MockProvider flavours are the environment", "virtual clock; ageing 0",
               "a 'disconnected' fault really disconnects the provider object; steps are the managers' do() bodies")
    ctx.model_check("SysMC", "MC_SysMC.cfg", "design: contract guards", workers=4)
    sc.run_exemplars(ctx, CLAUSES, extra_sig=xsig)
    quick = ctx.tier == "quick"
    flavors = ["oid/oid", "path/oidf"] if quick else ["oid/oid", "path/oidf", "oidf/path", "path/path"]
    base = sc.generate(ctx, "f_one", [1], 2, GAPS, "std") + sc.generate(ctx, "f_oneR", [2], 2, GAPS, "std")
    base += [c for c in sc.generate(ctx, "f_two", [1, 2], 2, GAPS, "std", filt="disjoint")
             if {t[1] for t in c["tokens"] if t[0] == "U"} == {0, 1}]
    base, full = sc.slice_cases(base, 40 if quick else 150, key="faultbase")
    # behaviours with a stop, creations while the engine is down and a restart without a usable cursor: the faults then also
    # hit the calls of the start-up WALK, the only way the offline creations can be discovered (only creations / edits are made
    # while down: a walk does not promise deletions)
    rs = [c for c in sc.generate(ctx, "f_walk", [1], 2, ["I", "X", "Rrm"], "std", filt="clean") +
          sc.generate(ctx, "f_walkR", [2], 2, ["I", "X", "Rrm"], "std", filt="clean") if walk_case(c)]
    rs, _ = sc.slice_cases(rs, 16 if quick else 80, key="faultwalk")
    # the same object is changed again after a step that may have failed half-way (a transfer that downloaded but did not
    # upload, then new content before the retry)
    def same_object(c):
        ops = [t[2] for t in c["tokens"] if t[0] == "U"]
        return len(ops) == 2 and ops[0][1] == ops[1][1] and any(t[0] == "S" for t in c["tokens"][:-2]) \
            and ops[0][0] in ("create", "write") and ops[1][0] in ("write", "delete", "rename")
    so = [c for c in sc.generate(ctx, "f_same", [1], 2, ["IS"], "std") + sc.generate(ctx, "f_sameR", [2], 2, ["IS"], "std") if same_object(c)]
    so, _ = sc.slice_cases(so, 12 if quick else 60, key="faultsame")
    base = base + rs + so
    ctx.cov["exhaustive"] = False
    golden = sc.with_flavors([dict(c, tokens=[["F", NEVER, 4]] + c["tokens"]) for c in base], flavors)
    gtraces = sysfam.run_cases(ctx, golden)
    cases = []
    rng = random.Random(ctx.seed)
    for g, tr in zip(golden, gtraces):
        n = [e for e in tr if e["ev"] == "Note"][-1]["ncalls"]
        for k in range(1, n + 1):
            for kind in KINDS:
                cases.append(dict(g, tokens=[["F", k, kind]] + g["tokens"][1:], fkind=kind, family="fault"))
    ctx.extra["single_fault_runs"] = len(cases)
    if quick:
        cases, _ = sc.slice_cases(cases, 5000, ctx.seed + 5)
    traces, viols, bad = sc.run_family(ctx, cases, "single faults", CLAUSES, extra_sig=xsig)
    fired = sum(1 for t in traces if any(e["ev"] == "Fault" for e in t))
    ctx.extra["faults_fired"] = fired
    if fired < len(cases) // 2:
        raise MachineryError("only %d of %d injected faults fired" % (fired, len(cases)))
    st = stuck_cases(ctx, flavors, 600 if quick else None)
    straces, _, _ = sc.run_family(ctx, st, "a file that keeps failing", CLAUSES, extra_sig=xsig)
    ctx.extra["stuck_runs"] = len(st)
    ctx.extra["stuck_runs_where_the_path_kept_failing"] = sum(1 for t in straces if any(e["ev"] == "Progress" and e["hits"] > 0 for e in t))


def replay(ctx, rep):
    case = rep["case"]
    traces = sysfam.run_cases(ctx, [case])
    sysfam.judge(ctx, [case], traces, "replay", clauses=CLAUSES, extra_sig=xsig)
    ctx.count(evaluations=1, nontrivial=2)
    ctx.sample(case)


if __name__ == "__main__":
    main("C10", run, replay, level="fault_enumeration")

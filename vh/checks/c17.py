"""
C17 - scheduling laws: nothing syncs before it has aged; oldest eligible goes first.

(1) Sched.tla / MC_Sched.cfg: the selection rule of SyncState.change(age) as a specification; every configuration of up
    to 3 pending entries (change times per side, priorities incl. negative, ages, now) is enumerated by TLC, replayed on the
    real SyncState.change() under the virtual clock, and Trace_Sched.tla evaluates the laws on the CODE's answer:
    ChosenIsEligible, NoBetterEligible (lower priority first, then older), ZeroAgeAllEligible, PuntBounded.
(2) System runs under the virtual clock with ageing 2 s / 4 s and application priorities {-1, 0, +1}: TLC-generated histories
    with timed schedule tokens (sync attempted 1, 2, 3 half-ageing units after intake); Trace_Sys.tla evaluates
    Aged   at every effective engine write: now - (time the engine was last notified of a change to that object, either
           side) >= ageing, unless the entry's priority is negative
"""
import json

from ..core import MachineryError, import_repo, VClock, install_clock
from ..runner import main
from .. import syscheck as sc
from .. import tracecheck as tc

CLAUSES = {"Aged"}
GAPS = ["I", "IT1S", "IT2S", "IT3S", "TI"]


def xsig(case, trace, line):
    ev = trace[line - 1]
    # site: was the other side of the entry also pending (the engine's by-design shortcut, finding l)?
    se = [e for e in trace[:line] if e["ev"] == "SyncEntry"]
    both = bool(se and se[-1]["changed"][0] and se[-1]["changed"][1])
    return {"aging": case.get("aging"), "prio": bool(case.get("prio")), "both_sides_pending": both, "op": ev.get("op", "")}


# ---- part 1: SyncState.change() against Sched.tla ---------------------------------------------------------------
def run_sched(ctx):
    import_repo()
    from cloudsync.sync.state import SyncState, SyncEntry
    from cloudsync.providers.mock import MockProvider
    from cloudsync.types import FILE
    cfgs = ctx.tlc("Sched", "MC_Sched.cfg", what="enumerate scheduling configurations", workers=1)
    if not cfgs.ok:
        raise MachineryError("Sched enumeration failed\n" + cfgs.tail())
    confs = [h[0] for h in tc.parse_histories(cfgs)]
    if len(confs) < 500:
        raise MachineryError("only %d scheduling configurations" % len(confs))
    clk = VClock(start=1000.0, eps=0.0)
    install_clock(clk)
    provs = (MockProvider(False, True), MockProvider(False, True))
    traces = []
    for c in confs:
        # priorities come from the application's prioritize(side, path), consulted when an entry gets its path
        # (specification priorities 1..4 stand for -1..2); they are in place before the change times are set, because
        # raising the priority of an entry that already has change times is a punt that moves those times later
        table = {"/p%d" % i: e["prio"] - 2 for i, e in enumerate(c["ents"])}
        st = SyncState(provs, shuffle=False, prioritize=lambda side, path, _t=table: _t.get(path, 0))
        ents = []
        for i, e in enumerate(c["ents"]):
            ent = SyncEntry(st, FILE)
            for side in (0, 1):
                ent[side].oid = "o%d_%d" % (i, side)
                ent[side].path = "/p%d" % i
                if e["ch"][side]:
                    ent[side].changed = 1000.0 + e["ch"][side]
            ents.append(ent)
        clk.t = 1000.0 + c["now"]
        got = st.change(c["age"])
        ev = dict(c)
        ev["got"] = (ents.index(got) + 1) if got is not None else 0
        # a punted entry: priority + 1 and its change times move later by a bounded amount
        traces.append([ev])
    viols, done = tc.validate(ctx, "Trace_Sched", "Trace_Sched.cfg", traces, "scheduling configurations")
    for ti, line, clause in viols:
        ctx.report({"clause": clause, "part": "change()"}, {"conf": traces[ti][0]}, replay={"sched": traces[ti][0]})
    ctx.count(evaluations=len(traces), nontrivial=len({json.dumps(t) for t in traces if t[0]["got"]}))
    ctx.sample({"sched_conf": traces[len(traces) // 2][0]})


def run(ctx):
    ctx.extra["rule"] = ("(1) every configuration of Sched.tla (<=3 pending entries x change times x priorities x ages x now), replayed "
                         "on SyncState.change(); (2) TLC-generated histories with timed schedule tokens x ageing {2,4} s x priority "
                         "tables x flavours; non-trivial = an engine write happened / an entry was chosen")
    ctx.assume("virtual clock replaces time.time/sleep inside the engine modules", "MockProvider flavours are the environment")
    run_sched(ctx)
    sc.run_exemplars(ctx, CLAUSES, extra_sig=xsig)
    quick = ctx.tier == "quick"
    flavors = ["oid/oid", "path/oidf"] if quick else ["oid/oid", "path/oidf", "oidf/path", "path/path"]
    fams = [("age_one", [1], 2, 400 if quick else None), ("age_two", [1, 2], 2, 500 if quick else 6000)]
    if not quick:
        fams.append(("age_one3", [1], 3, 6000))
    prios = [None, {"1": -1}, {"2": 1, "1": 0}]
    for name, sides, nops, limit in fams:
        cases = sc.generate(ctx, name, sides, nops, GAPS, "std")
        cases, full = sc.slice_cases(cases, limit, ctx.seed * 67867967 + nops)
        allc = []
        for aging in (2.0, 4.0):
            for pr in prios:
                for c in cases:
                    d = dict(c, aging=aging)
                    if pr:
                        d["prio"] = pr
                    allc.append(d)
        if quick:
            allc, _ = sc.slice_cases(allc, 1500, ctx.seed + 2)
        sc.run_family(ctx, sc.with_flavors(allc, flavors), "ageing family %s" % name, CLAUSES, extra_sig=xsig)
    # "a persistently failing entry cannot starve the others": one path keeps failing for 30 fair rounds (family shared with
    # C10); by then everything else has been synchronised (OthersNotStarved, Trace_Sys!TProgress)
    from . import c10
    st = c10.stuck_cases(ctx, flavors, 300 if quick else None)
    sc.run_family(ctx, st, "a persistently failing entry does not starve the others", {"OthersNotStarved"}, extra_sig=xsig)


def replay(ctx, rep):
    if "sched" in rep["case"]:
        raise MachineryError("scheduling configurations are re-enumerated by every run")
    sc.replay_case(ctx, rep, CLAUSES | {"OthersNotStarved"}, extra_sig=xsig)


if __name__ == "__main__":
    main("C17", run, replay)

"""
C05 - conflict-resolution contract: both sides end up with the resolver's answer.

Family (Gen_Conflict.tla): conflict shape {create/create, edit/edit} x content pair {different, equal, empty vs non-empty,
large} x resolver behaviour {pick either side x keep, merged data x keep, None, exception, malformed return} x which side
acts first x intake tokens between the two user operations x every post-conflict schedule over {EL, ER, S} up to a bound,
then run to quiet; per flavour.  Judged by Trace_Sys.tla:
  ResolverOnlyOnDifferentContent / ResolverCalledOnceIffDifferent   called once iff the contents differ, never when equal
  ResolverHandlesTruthful        the two handles' bytes and side labels are the actual contents of the two sides
  ResolverOutcome                at quiet both sides hold the table's winner at the path, nothing else changed
  ResolverKeepsLoserIffKeep      exactly one '.conflicted' sibling holding the loser iff it is to be kept
Schedule independence is the fact that every schedule of a case meets the same exact outcome.
(merged data with keep=True: the statement defines no outcome; only the call clauses are evaluated there, and C01's
ReachesQuiet covers the run.)
"""
from ..core import MachineryError
from ..runner import main
from .. import syscheck as sc
from .. import tracecheck as tc

CLAUSES = {"ResolverOnlyOnDifferentContent", "ResolverHandlesTruthful", "ResolverCalledOnceIffDifferent",
           "ResolverOutcome", "ResolverKeepsLoserIffKeep"}
MIDTOK = {"N": [], "EL": [["EL", 0]], "ER": [["ER", 0]], "I": [["EL", 0], ["ER", 0]]}


def build(c):
    P = [10, 2] if c["shape"] == "create" else [10, 1]
    op = "create" if c["shape"] == "create" else "write"
    cl, cr = c["pair"]
    ops = [["U", 0, [op, P, cl]], ["U", 1, [op, P, cr]]]
    if c["first"] == 1:
        ops.reverse()
    toks = [ops[0]] + MIDTOK[c["mid"]] + [ops[1]] + [[t, 0] if t != "S" else ["S"] for t in c["post"]] + [["Q"], ["AQ"]]
    ans = c["answer"]
    if ans[0] == "pick":
        resolver = ["pick", ans[1], bool(ans[2])]
    elif ans[0] == "merge":
        resolver = ["merge", bool(ans[2])]
    else:
        resolver = [ans[0]]
    tags = ["RESOLVER_MERGE_KEEP"] if (ans[0] == "merge" and ans[2] == 1 and cl != cr) else []
    return {"base": "std", "tokens": toks, "resolver": resolver, "family": "c05", "xtags": tags,
            "kase": {"kind": "c05", "path": P, "cidL": cl, "cidR": cr, "answer": ans[0], "pick": ans[1], "keep": ans[2]}}


def generate(ctx, maxpost, mids):
    cfg = tc.gen_cfg(ctx, "Gen_Conflict.cfg", "CONSTANTS\n MaxPost = %d\n Mids = {%s}\nSPECIFICATION Spec\nINVARIANT Emit\n"
                     "CHECK_DEADLOCK FALSE\n" % (maxpost, ", ".join('"%s"' % m for m in mids)))
    res = ctx.tlc("Gen_Conflict", cfg, what="enumerate the conflict family", workers=1)
    if not res.ok:
        raise MachineryError("Gen_Conflict failed\n" + res.tail())
    return [build(h[0]) for h in tc.parse_histories(res)]


def xsig(case, trace, line):
    return {"answer": case["kase"]["answer"], "keep": case["kase"]["keep"], "shape": case["tokens"][0][2][0],
            "equal": case["kase"]["cidL"] == case["kase"]["cidR"]}


def run(ctx):
    ctx.extra["rule"] = ("finite product enumerated by Gen_Conflict.tla (shape x content pair x resolver behaviour x first side x "
                         "mid tokens x post-conflict schedules) x flavours; distinct = distinct (flavour, case); non-trivial = "
                         "contents differ (the resolver must be consulted)")
    ctx.assume("MockProvider flavours are the environment", "virtual clock; ageing 0",
               "the resolver is the application's; its behaviours are the nine listed answers")
    ctx.model_check("SysMC", "MC_SysMC.cfg", "design: contract guards", workers=4)
    sc.run_exemplars(ctx, CLAUSES, extra_sig=xsig)
    if ctx.tier == "quick":
        cases = generate(ctx, 1, ["N", "I"])
        flavors = ["oid/oid", "path/oidf"]
    else:
        cases = generate(ctx, 3, ["N", "EL", "ER", "I"])
        flavors = ["oid/oid", "path/oidf", "oidf/path", "path/path"]
    ctx.extra["family_size"] = len(cases)
    ctx.cov["exhaustive"] = True
    allc = sc.with_flavors(cases, flavors)
    from .. import sysfam
    for k in range(0, len(allc), sc.CHUNK):          # chunked: see syscheck.run_family
        sub = allc[k:k + sc.CHUNK]
        sysfam.judge(ctx, sub, sysfam.run_cases(ctx, sub), "resolver family", clauses=CLAUSES, extra_sig=xsig)
    ctx.count(evaluations=len(allc), nontrivial=len([c for c in allc if c["kase"]["cidL"] != c["kase"]["cidR"]]))
    ctx.sample({k: allc[7][k] for k in ("flavor", "tokens", "resolver", "kase")})


def replay(ctx, rep):
    from .. import sysfam
    case = rep["case"]
    traces = sysfam.run_cases(ctx, [case])
    sysfam.judge(ctx, [case], traces, "replay", clauses=CLAUSES, extra_sig=xsig)
    ctx.count(evaluations=1, nontrivial=2)
    ctx.sample(case)


if __name__ == "__main__":
    main("C05", run, replay)

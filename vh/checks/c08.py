"""
C08 - persisted sync state equals in-memory state and round-trips unchanged.

(1) After EVERY engine step of every run of the system families (incl. stop/restart families) the recorder decodes what the
    Storage holds for the sync (read_all(tag)) and projects the live entries of the real SyncState; StateInv.tla, evaluated by
    TLC (Trace_Sys.tla), demands
      PersistExact   rows == live non-trash entries on ids, paths, hashes, last-synced markers, existence, ignore reason,
                     pending flag - no stale row, no missing row
      ReloadSame     a fresh SyncState loaded from that storage answers the same id and path lookups and has the same pending set
    The same holds for the state-level family (raw event tuples fed to SyncState.update, see C11).
(2) Codec.tla enumerates the product of shape classes of every serialised field (bytes/str/int/nested tuple/dict hashes, unicode
    paths, None fields, every existence value incl. the corrupt marker with each saved value, every ignore reason) and the rows
    of older releases (boolean/None existence, 'discarded' / 'conflicted' / "trashed" markers, missing keys); the driver runs
    serialize -> deserialize on the real SyncEntry and Trace_Codec.tla judges RoundTrip / LegacyLoads.
"""
import json

from ..core import MachineryError, import_repo
from ..runner import main
from .. import syscheck as sc
from .. import tracecheck as tc
from . import c11

CLAUSES = {"PersistExact", "ReloadSame"}
GAPS = ["I", "I1", "IS", "ISS", "Q", "X", "R"]

HASHES = {0: None, 1: b"abcdef", 2: b"\xff\xfe\x00\x80", 3: "str-hash", 4: 123456789, 5: (b"a", b"b"), 6: ((b"a", 1), ("x", (2, b"\xff"))),
          7: {"k": b"v", "n": 1}}
PATHS = {0: None, 1: "/local/a", 2: "/local/\u00e9\u4e2d", 3: "/local/\U0001F600x", 4: "/local/a b. c/.d"}
EXS = ["unknown", "exists", "trashed", "missing", "likely-trashed", "corrupt"]
IGS = ["none", "discarded", "conflict", "temp rename", "irrelevant"]


def codec_record(c):
    import msgpack
    from cloudsync.sync.state import SyncState, SyncEntry, Exists
    from cloudsync.providers.mock import MockProvider
    from cloudsync.types import FILE, IgnoreReason
    st = SyncState((MockProvider(False, True), MockProvider(False, True)))
    ent = SyncEntry(st, FILE)
    toks = {}

    def tok(v):
        k = repr(v)
        return toks.setdefault(k, len(toks) + 1)

    def view(e):
        s = e[0]
        return {"fields": [tok(s.oid), tok(s.path), tok(s.hash), tok(s.sync_hash), tok(s.sync_path), tok(s.otype)],
                "ex": EXS.index(s.exists.value), "saved": 0 if s._saved_exists is None else EXS.index(s._saved_exists.value),
                "ig": IGS.index(e.ignored.value), "changed": 1 if s.changed else 0}
    rec = {"legacy": c["legacy"], "exc": "", "before": {}, "after": {}}
    try:
        s0 = ent[0]
        s0.oid = "oid-1"
        s0.path = PATHS[c["path"]]
        s0.hash = HASHES[c["hash"]]
        s0.sync_hash = HASHES[c["shash"]]
        s0.sync_path = PATHS[c["spath"]]
        if c["ex"] == 5:
            s0.exists = Exists(EXS[c["saved"]])
            s0.exists = Exists.CORRUPT
        else:
            s0.exists = Exists(EXS[c["ex"]])
        if c["changed"]:
            s0.changed = 12345.5
        if c["ig"]:
            ent.ignored = IgnoreReason(IGS[c["ig"]])
        rec["before"] = view(ent)
        blob = ent.serialize()
        if c["legacy"]:
            ser = msgpack.loads(blob, use_list=False, raw=False)
            ser = {k: (dict(v) if isinstance(v, dict) else v) for k, v in ser.items()}
            k = c["legacy"]
            if k in (1, 2, 3):
                ser["side0"]["exists"] = {1: True, 2: False, 3: None}[k]
            if k == 4:
                ser.pop("ignored"); ser["discarded"] = True
            if k == 5:
                ser.pop("ignored"); ser["conflicted"] = True
            if k == 6:
                ser["ignored"] = "trashed"
            if k == 7:
                ser.pop("priority", None)
                for sd in ("side0", "side1"):
                    for key in ("size", "mtime", "_saved_exists"):
                        ser[sd].pop(key, None)
            blob = msgpack.dumps(ser, use_bin_type=True)
        ent2 = SyncEntry(st, None, (7, blob))
        rec["after"] = view(ent2)
    except Exception as e:
        rec["exc"] = type(e).__name__
        rec["before"] = rec["before"] or {"fields": [], "ex": 0, "saved": 0, "ig": 0, "changed": 0}
        rec["after"] = {"fields": [], "ex": 0, "saved": 0, "ig": 0, "changed": 0}
    return rec


def run_codec(ctx):
    import_repo()
    res = ctx.tlc("Codec", "MC_Codec.cfg", what="enumerate codec shape classes", workers=1)
    if not res.ok:
        raise MachineryError("Codec enumeration failed\n" + res.tail())
    cases = [h[0] for h in tc.parse_histories(res)]
    if len(cases) < 1000:
        raise MachineryError("only %d codec cases" % len(cases))
    traces = [[codec_record(c)] for c in cases]
    viols, done = tc.validate(ctx, "Trace_Codec", "Trace_Codec.cfg", traces, "codec round trips")
    for ti, line, clause in viols:
        c = cases[ti]
        ctx.report({"clause": clause, "part": "codec", "legacy": c["legacy"], "hash": c["hash"], "ex": c["ex"],
                    "exc": traces[ti][0]["exc"]}, {"case": c, "record": traces[ti][0]}, replay={"codec": c})
    ctx.count(evaluations=len(cases), nontrivial=len(cases))
    ctx.sample({"codec_case": cases[len(cases) // 2]})
    ctx.extra["codec_cases"] = len(cases)


def idless_pending(ev):
    """site of the listed finding STALE-ENTRY-STAYS-PENDING: the live pending set holds an entry that has, on neither side, a
    change flag together with an id (it lost its ids and/or flags when another entry took over its path)"""
    st = ev.get("st") or {}
    ents = {e["id"]: e for e in st.get("ents", [])}
    return any(i in ents and not any(sd[0] != 0 and sd[6] == 1 for sd in ents[i]["s"]) for i in st.get("pend", []))


def xsig(case, trace, line):
    return {"restart": any(t[0] == "R" for t in case["tokens"]), "idless_pending": idless_pending(trace[line - 1])}


def run(ctx):
    ctx.extra["rule"] = ("(1) TLC-generated system histories (incl. stop/restart) with the table and the decoded storage rows observed "
                         "after every engine step, and the state-level event-tuple family of C11; (2) the full product of Codec.tla; "
                         "non-trivial = at least one engine write / more than one call / every codec case")
    ctx.assume("storage rows are decoded with msgpack exactly as SyncEntry.deserialize does; the table is read through SyncState's "
               "private indexes", "MockStorage fixture behind a counting wrapper; MockProvider flavours; virtual clock",
               "msgpack fidelity for every byte string / number is outside the technique: one representative per shape class")
    run_codec(ctx)
    quick = ctx.tier == "quick"
    for ps in (False, True):
        cases = c11.gen_state(ctx, 2, [0], ps)
        cases, _ = sc.slice_cases(cases, 2500 if quick else None, ctx.seed + 4)
        run_state(ctx, cases, "state-level sequences path_style=%s" % ps)
    flavors = ["oid/oid", "path/oidf"] if quick else ["oid/oid", "path/oidf", "oidf/path", "path/path"]
    fams = [("p_two2", [1, 2], 2, None, 600 if quick else None), ("p_sim4", [1, 2], 4, "sim", 300 if quick else 5000)]
    for name, sides, nops, mode, limit in fams:
        if mode == "sim":
            cases = sc.generate(ctx, name, sides, nops, GAPS, "std", simulate=(30, ctx.seed + 21))
        else:
            cases = sc.generate(ctx, name, sides, nops, GAPS, "std")
        cases, _ = sc.slice_cases(cases, limit, ctx.seed * 198491317 + nops)
        allc = [dict(c, project_state=True) for c in sc.with_flavors(cases, flavors)]
        sc.run_family(ctx, allc, "engine steps %s" % name, CLAUSES, extra_sig=xsig)


def run_state(ctx, cases, what):
    import multiprocessing
    from .. import statedrv
    res = ctx.pool().map(statedrv.execute, cases, chunksize=max(1, min(100, len(cases) // (ctx.workers * 4))))
    traces = []
    for c, (tr, err) in zip(cases, res):
        if err:
            raise MachineryError("state driver failed on %r:\n%s" % (c, err))
        traces.append(tr)
    viols, done, nonconf = tc.validate(ctx, "Trace_Sys", "Trace_Sys.cfg", traces, what, extended=True, min_batch=3000)
    for ti, line, clause, rest in viols:
        if clause in CLAUSES:
            ctx.report({"clause": clause, "family": "state", "path_style": cases[ti]["path_style"], "tags": c11.state_tags(cases[ti])},
                       {"ops": cases[ti]["ops"][:line - 1], "line": line}, replay={"state_case": cases[ti]})
    ctx.count(evaluations=len(cases), nontrivial=len(cases))


def replay(ctx, rep):
    case = rep["case"]
    if "codec" in case:
        import_repo()
        tr = [[codec_record(case["codec"])]]
        viols, done = tc.validate(ctx, "Trace_Codec", "Trace_Codec.cfg", tr, "replay")
        for ti, line, clause in viols:
            ctx.report({"clause": clause, "part": "codec", "legacy": case["codec"]["legacy"], "hash": case["codec"]["hash"],
                        "ex": case["codec"]["ex"], "exc": tr[0][0]["exc"]}, {"record": tr[0][0]}, replay=case)
        ctx.count(evaluations=1, nontrivial=2)
        ctx.sample(case)
    elif "state_case" in case:
        run_state(ctx, [case["state_case"]], "replay")
    else:
        sc.replay_case(ctx, rep, CLAUSES, extra_sig=xsig)


if __name__ == "__main__":
    main("C08", run, replay)

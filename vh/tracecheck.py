"""Batch trace validation: many recorded traces per TLC JVM, several JVMs in parallel."""
import json
import os
from concurrent.futures import ThreadPoolExecutor

from .core import MachineryError
from . import tlc as _tlc


def parse_report(res, what):
    reps = [p for p in res.printed() if p.startswith("{")]
    if not reps:
        raise MachineryError("no report printed by TLC for %s (rc=%s)\n%s" % (what, res.rc, res.tail(60)))
    return json.loads(reps[-1])


def validate(ctx, module, cfg, traces, what, jvms=None, env=None, dfs=False, must_complete=True, timeout=3600,
             min_batch=4000, extended=False):
    """Validate `traces` (list of lists of event dicts) against <module>/<cfg>.
    Returns list of (trace_index, line, clause) and the number of traces that ran to their last line."""
    if not traces:
        return ([], 0, []) if extended else ([], 0)
    jvms = jvms or max(1, min(ctx.workers, (len(traces) + min_batch - 1) // min_batch))
    per = (len(traces) + jvms - 1) // jvms
    # a batch is also capped by its serialised size: TLC's Json module builds the whole file as one value on the heap
    texts = [json.dumps(t, separators=(",", ":")) for t in traces]
    cap = int(os.environ.get("VERIF_BATCH_BYTES", "24000000"))
    batches, k = [], 0
    while k < len(traces):
        size, j = 0, k
        while j < len(traces) and j - k < per and (j == k or size + len(texts[j]) <= cap):
            size += len(texts[j])
            j += 1
        batches.append((k, traces[k:j]))
        k = j
    jobs = []
    for off, b in batches:
        path = os.path.join(ctx.scratch, "traces_%s_%d.json" % (module, off))
        with open(path, "w") as fh:
            fh.write("[" + ",".join(texts[off:off + len(b)]) + "]")
        jobs.append((off, b, path))

    def run(job):
        off, b, path = job
        e = {"TRACE_FILE": path}
        e.update(env or {})
        res = _tlc.run_tlc(module, cfg, ctx.scratch, workers=1, env=e, dfs=dfs, timeout=timeout, heap="3g")
        if res.error or res.rc != 0:
            raise MachineryError("trace validation %s failed in TLC (rc=%s)\n%s" % (what, res.rc, res.tail(60)))
        rep = parse_report(res, what)
        return off, len(b), res, rep

    viols, completed, nonconf = [], 0, []
    with ThreadPoolExecutor(max_workers=min(len(jobs), ctx.workers)) as ex:
        for off, n, res, rep in ex.map(run, jobs):
            ctx.tlc_runs.append({"module": module, "cfg": os.path.basename(cfg), "generated": res.generated,
                                 "distinct": res.distinct, "wall_s": round(res.wall, 2), "what": what, "traces": n})
            ctx.cov["states"] += res.distinct
            ctx.cov["transitions"] += res.generated
            completed += rep["completed"]
            for v in rep["violations"]:
                viols.append((off + v[0] - 1, v[1], v[2]) + ((v[3:],) if extended else ()))
            for v in rep.get("nonconf", []):
                nonconf.append((off + v[0] - 1, v[1], v[2]))
    if must_complete and completed != len(traces):
        raise MachineryError("%s: only %d of %d traces were consumed to their last line (trace spec blocked: "
                             "harness/spec mismatch)" % (what, completed, len(traces)))
    ctx.cov["traces_validated_against_impl"] += len(traces)
    if extended:
        return viols, completed, nonconf
    return viols, completed


def gen_cfg(ctx, name, text):
    path = os.path.join(ctx.scratch, name)
    with open(path, "w") as fh:
        fh.write(text)
    return path


def parse_histories(res):
    return [json.loads(p) for p in res.printed() if p.startswith("[")]
